#!/bin/bash
# MANIFEST.setup_cmd: offline build of the verification engine against /repo's current tree.
set -u
HERE="$(cd "$(dirname "$0")" && pwd)"
cd "$HERE"
export VERIF_DIR="$HERE"
export CARGO_NET_OFFLINE=true
export CARGO_TERM_COLOR=never
. "$HERE/engine/env.sh" || exit 2
rc=0
build_zoo || rc=2
for pkg in vprim vrt vfront vdiff; do
  build_bin "$pkg" || rc=2
done
# C19's second build of the runner (feature descriptive-deserialize-errors)
CARGO_TARGET_DIR="$TARGET_DIR/ddx" build_bin vdiff --features ddx || rc=2
exit $rc
