#!/usr/bin/env python3
"""Writes MANIFEST.json from the table below (kept in one place so the manifest stays consistent)."""
import json

BASELINE = ("cd /repo && cargo nextest run --workspace --no-fail-fast --tool-config-file pb:/w/lib/nextest.toml "
            "--profile pb --test-threads 8 --offline || cargo test --workspace --no-fail-fast --offline")

# id -> (engine, technique, level text, level note, design ref)
CHECKS = {
 "C01": ("vrt",
   "property-based testing (proptest) over a compiled type zoo: round-trip oracle on generated values and back-to-back message histories",
   "Every definition of a fixed zoo of ~1700 types (systematic kind x constraint x position table, random modules, shape and version-pair families), compiled through the real asn_to_rust! pipeline, is driven with schema-directed boundary-biased values, alone and in histories of 1..4 messages in one writer at every bit alignment; decode(encode(v)) == v, bits consumed == bits produced, 0 bits remaining. Exploration: program space is a fixed sample (plus a seeded zoo in thorough), value space is sampled.",
   "Trusted: the ValueReader/ValueWriter bridges (public Reader/Writer traits only). Regions of the two open known findings (lists/known-multiplier strings >= 16384 elements; open types >= 16384 octets) are excluded by construction and probed by replay.",
   "5/C01"),
 "C02": ("vrt",
   "differential testing against an independent X.691 reference codec on proptest-generated values (both directions)",
   "For every conformance-profile definition of the zoo and generated in-profile values: UperWriter bits == reference encoder bits bit for bit, and UperReader on the reference bits returns the value and consumes exactly them. The reference (vcore::refcodec/refper) was written from the standard, shares no code with asn1rs, validates itself by round trip on every case and is pinned to hand-derived and repository vectors.",
   "Relative to my reading of X.691 (DESIGN.md section 7). Same exclusions as C01.",
   "5/C02"),
 "C03": ("vrt",
   "bounded-exhaustive enumeration of SEQUENCE/SET shapes x presence patterns with random payloads, preamble/reference/decode oracles",
   "All 142 SEQUENCE + 142 SET shapes with <= 3 components (5 in thorough) are compiled through the real pipeline; for each all 2^k presence patterns x 3 payloads are encoded: preamble computed from the shape, full bits == reference, decode returns the presence written, refusal only ExtensionFieldsInconsistent for the documented pattern.",
   "Component types rotate through six small types; shapes beyond N components are not covered.",
   "5/C03"),
 "C05": ("vrt",
   "property-based cross-version testing on compiled schema pairs with a sentinel message and projection/lift oracles",
   "60 compiled (V1, V2) pairs covering SEQUENCE/SET/CHOICE/ENUMERATED, 0..2 pre-existing and 1..8 appended additions in three open-type length classes, four placements; generated values of either version are written with a sentinel behind them and read by the other version: content == projection/lift on the abstract schema, reader stops at the end of the message, sentinel decodes, writer bits == X.691.",
   "Pairs are a fixed family; additions >= 16384 octets fall under the open known finding about fragmented open types.",
   "5/C05"),
 "C06": ("vrt",
   "property-based negative testing: single-node constraint violations derived from generated valid values, plus forged CHOICE/ENUMERATED indices",
   "For generated valid values of every zoo type each reached constrained node is pushed outside its constraint (INTEGER lb-1/ub+1/far, SIZE lb-1/0/ub+1/2ub+1, illegal characters at first/middle/last position): non-extensible -> Err (Ok/panic is a violation, with what the bits decode to), extensible -> Ok + round trip + X.691 extension form. CHOICE/ENUMERATED indices are forged through hand-written descriptor types.",
   "Values that the generated Rust field type cannot hold are unrepresentable and skipped (counted).",
   "5/C06"),
 "C10": ("vprim",
   "bounded-exhaustive enumeration + boundary families + proptest random primitives against reference PER primitives",
   "Every public PackedWrite/PackedRead primitive is called directly: all constrained whole numbers with lb in [-40,40], span <= 300, v in [lb-2,ub+2] (exhaustive), all ordered bound pairs of the 2^k boundary family, length determinants / octet strings / bit strings for a table of size constraints x lengths in every fragment-count class up to 200000 units, indices for 1..300 root items; bits == X.691 reference, read returns the value and advances by the produced bits (checked with a sentinel), inadmissible arguments -> Err.",
   "Trusted: vcore::refper. write_normally_small_length follows asn1rs's count-1 convention (bit-exact for v <= 63 only).",
   "5/C10"),
 "C20": ("vprim",
   "enumeration of boundary families + proptest-generated item sequences, round-trip and byte-consumption oracle",
   "All listed lengths, tags (4 classes x 0..30), booleans and every boolean content octet, i64/u64 boundary families through the raw primitives and through BasicWriter/BasicReader with Integer<i8..u64>, Boolean and Enumerated (1..300 items, every index), alone and in generated sequences of 2..8 items in one buffer: value read == value written, bytes consumed == bytes written, nothing remains.",
   "Integers are read back with the byte count the writer produced (the raw primitives carry no length).",
   "5/C20"),
 "C11": ("vprim",
   "bounded-exhaustive enumeration + proptest random cases and operation histories against a Vec<bool> model",
   "Every single write/read operation on (&mut [u8], &mut usize), (&[u8], &mut usize) and Bits with both buffers up to 5 bytes "
   "(6 in thorough) is enumerated completely with three fill patterns and compared bit for bit with a naive bit-vector model; random "
   "buffers up to 64 bytes and random BitBuffer operation histories (proptest, shrinking) extend this beyond the enumerated sizes. "
   "Exploration, not proof: sizes beyond the enumeration are sampled.",
   "Trusted: the Vec<bool> model in vcore::bitmodel (20 lines). Derived-length operations are called only within their precondition "
   "(offset <= 8*len). Nothing is asserted about slice content after Err.",
   "5/C11"),
}

NOT_YET = {
}

def main():
    props = [json.loads(l) for l in open("/verif/properties.jsonl")]
    checks = []
    na = []
    for p in props:
        pid = p["id"]
        if pid in CHECKS:
            engine, technique, text, note, ref = CHECKS[pid]
            checks.append({
                "property_id": pid,
                "quick_cmd": f"./check {pid} quick",
                "thorough_cmd": f"./check {pid} thorough",
                "evidence_file": f"/verif/evidence/{pid}.json",
                "replay_cmd_template": f"./check {pid} --replay {{path}}",
                "engine": engine,
                "level_claimed": {"category": "exploration", "text": text, "design_ref": f"DESIGN.md section {ref}"},
                "level_note": note,
                "technique": technique,
            })
        else:
            na.append({"property_id": pid, "reason": NOT_YET.get(pid, "check not built yet in this round (designed in DESIGN.md section 5; property-based testing applies)")})
    m = {
        "version": 1,
        "setup_cmd": "./setup.sh",
        "hooks": {
            "guard": "kellerkindt_asn1rs_verif",
            "enable": "no instrumentation hooks are needed: all observation points are public API (DESIGN.md section 11); checks build /repo as is",
            "baseline_off_cmd": BASELINE,
            "source_commits": [],
            "add_only": True,
        },
        "engines": [
            {"name": "vprim", "path": "/verif/engine/vprim", "serves_properties": ["C10", "C11", "C20"],
             "kind_free_text": "Rust binary using proptest + bounded-exhaustive enumeration against models/reference primitives; runs its body in 16 worker processes"},
            {"name": "vrt", "path": "/verif/engine/vrt", "serves_properties": ["C01", "C02", "C03", "C04", "C05", "C06", "C16", "C17", "C18", "C19"],
             "kind_free_text": "Rust binary over a type zoo compiled from generated ASN.1 through asn_to_rust! (zoogen -> zoo crates); proptest value strategies, reference X.691 codec, bridges over the public Reader/Writer traits"},
        ],
        "checks": checks,
        "notes": "All checks: ./check <ID> <quick|thorough>; exit 0 held / 1 violation / 2 infrastructure. Known findings: /verif/KNOWN_FINDINGS.txt. Seeds: VERIF_SEED.",
        "not_applicable": na,
    }
    json.dump(m, open("/verif/MANIFEST.json", "w"), indent=1)
    print(f"{len(checks)} checks, {len(na)} not claimed")

main()
