#!/usr/bin/env python3
"""Writes MANIFEST.json from the table below (kept in one place so the manifest stays consistent)."""
import json

BASELINE = ("cd /repo && cargo nextest run --workspace --no-fail-fast --tool-config-file pb:/w/lib/nextest.toml "
            "--profile pb --test-threads 8 --offline || cargo test --workspace --no-fail-fast --offline")

# id -> (engine, technique, level text, level note, design ref)
CHECKS = {
 "C01": ("vrt",
   "property-based testing (proptest) over a compiled type zoo: round-trip oracle on generated values and back-to-back message histories",
   "Every definition of a fixed zoo of ~1700 types (systematic kind x constraint x position table, random modules, shape and version-pair families), compiled through the real asn_to_rust! pipeline, is driven with schema-directed boundary-biased values, alone and in histories of 1..4 messages in one writer at every bit alignment; decode(encode(v)) == v, bits consumed == bits produced, 0 bits remaining. Exploration: program space is a fixed sample (plus a seeded zoo in thorough), value space is sampled.",
   "Trusted: the ValueReader/ValueWriter bridges (public Reader/Writer traits only). Regions of the two open known findings (lists/known-multiplier strings >= 16384 elements; open types >= 16384 octets) are excluded by construction and probed by replay.",
   "5/C01"),
 "C02": ("vrt",
   "differential testing against an independent X.691 reference codec on proptest-generated values (both directions)",
   "For every conformance-profile definition of the zoo and generated in-profile values: UperWriter bits == reference encoder bits bit for bit, and UperReader on the reference bits returns the value and consumes exactly them. The reference (vcore::refcodec/refper) was written from the standard, shares no code with asn1rs, validates itself by round trip on every case and is pinned to hand-derived and repository vectors.",
   "Relative to my reading of X.691 (DESIGN.md section 7). Same exclusions as C01.",
   "5/C02"),
 "C03": ("vrt",
   "bounded-exhaustive enumeration of SEQUENCE/SET shapes x presence patterns with random payloads, preamble/reference/decode oracles",
   "All 142 SEQUENCE + 142 SET shapes with <= 3 components (plus a nested family and a wide family with 63..130 OPTIONAL/DEFAULT root components / 63..70 extension additions, whose patterns are sampled) are compiled through the real pipeline; for each all 2^k presence patterns x 8 payloads are encoded: preamble computed from the shape, full bits == reference, decode returns the presence written, refusal only ExtensionFieldsInconsistent for the documented pattern - and for that pattern the reference encoder's bits (what a peer may send) must decode to the pattern.",
   "Component types rotate through six small types; between N and 63 components nothing is covered, the wide family is sampled.",
   "5/C03"),
 "C05": ("vrt",
   "property-based cross-version testing on compiled schema pairs with a sentinel message and projection/lift oracles",
   "64 compiled (V1, V2) pairs covering SEQUENCE/SET/CHOICE/ENUMERATED, 0..2 pre-existing and 1..8 appended additions in three open-type length classes, four placements, plus an untagged CHOICE inside a SET with explicit tags whose appended alternatives have smaller tags than all root alternatives; generated values of either version are written with a sentinel behind them and read by the other version: content == projection/lift on the abstract schema, reader stops at the end of the message, sentinel decodes, writer bits == X.691.",
   "Pairs are a fixed family (grown after seeded changes showed gaps, DESIGN.md 0.6); additions >= 16384 octets fall under the open known finding about fragmented open types.",
   "5/C05"),
 "C06": ("vrt",
   "property-based negative testing: single-node constraint violations derived from generated valid values, plus forged CHOICE/ENUMERATED indices",
   "For generated valid values of every zoo type each reached constrained node is pushed outside its constraint (INTEGER lb-1/ub+1/far, SIZE lb-1/0/ub+1/2ub+1, illegal characters at first/middle/last position): non-extensible -> Err (Ok/panic is a violation, with what the bits decode to), extensible -> Ok + round trip + X.691 extension form. CHOICE/ENUMERATED indices are forged through hand-written descriptor types.",
   "Values that the generated Rust field type cannot hold are unrepresentable and skipped (counted).",
   "5/C06"),
 "C10": ("vprim",
   "bounded-exhaustive enumeration + boundary families + proptest random primitives against reference PER primitives",
   "Every public PackedWrite/PackedRead primitive is called directly: all constrained whole numbers with lb in [-40,40], span <= 300, v in [lb-2,ub+2] (exhaustive), all ordered bound pairs of the 2^k boundary family, length determinants / octet strings / bit strings for a table of size constraints x lengths in every fragment-count class up to 200000 units, indices for 1..300 root items; bits == X.691 reference, read returns the value and advances by the produced bits (checked with a sentinel), inadmissible arguments -> Err.",
   "Trusted: vcore::refper. write_normally_small_length follows asn1rs's count-1 convention (bit-exact for v <= 63 only).",
   "5/C10"),
 "C20": ("vprim",
   "enumeration of boundary families + proptest-generated item sequences, round-trip and byte-consumption oracle",
   "All listed lengths, tags (4 classes x 0..30), booleans and every boolean content octet, i64/u64 boundary families through the raw primitives and through BasicWriter/BasicReader with Integer<i8..u64>, Boolean and Enumerated (1..300 items, non-extensible and extensible, every index), and Integer / Boolean / Enumerated whose constraint carries a tag of each of the four classes, alone and in generated sequences of 2..8 items in one buffer: value read == value written, bytes consumed == bytes written, nothing remains; the same through readers delivering 1 or 3 octets per call and writers accepting 1 or 3 octets per call (octets received == octets a Vec receives).",
   "Integers are read back with the byte count the writer produced (the raw primitives carry no length).",
   "5/C20"),
 "C11": ("vprim",
   "bounded-exhaustive enumeration + proptest random cases and operation histories against a Vec<bool> model",
   "Every single write/read operation on (&mut [u8], &mut usize), (&[u8], &mut usize) and Bits with both buffers up to 5 bytes "
   "(6 in thorough) is enumerated completely with three fill patterns and compared bit for bit with a naive bit-vector model; random "
   "buffers up to 64 bytes and random BitBuffer operation histories (appends, overwrites at earlier positions, views; proptest, shrinking) extend this beyond the enumerated sizes. "
   "Exploration, not proof: sizes beyond the enumeration are sampled.",
   "Trusted: the Vec<bool> model in vcore::bitmodel (20 lines). Derived-length operations are called only within their precondition "
   "(offset <= 8*len). Nothing is asserted about slice content after Err.",
   "5/C11"),

 "C04": ("vrt",
   "property-based fuzzing (proptest byte / fault generators, shrinking) of the three decoders with no-panic, over-read, allocation-bound and watchdog oracles",
   "UperReader and ProtobufReader for every type of the compiled zoo and the DER reader primitives are fed random byte strings (incl. hostile self-delimiting numbers at every bit offset and TLV-shaped DER input with every length form) with a random declared bit length and valid encodings of generated values carrying 1..3 faults (truncate to a bit, flip, insert, delete, overwrite with boundary bytes, duplicate a chunk). Per case: no panic, position <= declared length, same result when all bits beyond the declared length are flipped and bytes appended, peak allocation <= 64 MiB + 64 KiB x input bytes (counting global allocator), no case over 20 s + 0.1 ms per input octet of CPU time (confirmed 3x in isolation). Sampled exploration; coverage-guided libFuzzer targets extend it in the thorough tier.",
   "A hang is reported as violation only after three isolated confirmations; otherwise exit 2. Allocation bound is the harness's reading of 'bounded'.",
   "5/C04"),
 "C07": ("vfront",
   "grammar-based property testing (proptest): print an abstract module, parse + resolve it, compare canonical projections",
   "Abstract modules of the front-end profile (every supported type kind nested up to 2 levels, four tag classes, ranges with MIN/MAX/extension, named numbers and bits, SIZE incl. MAX/extension, ENUMERATED numbers/markers, OPTIONAL/DEFAULT literals, value assignments, value references, IMPORTS, OIDs) are printed in the plain and one random whitespace layout; canon(resolve(parse(tokenize(text)))) == canon(A) with only the documented normalisations.",
   "Trusted: the printer and canon (vcore::print / canon), cross-checked by C13 and C12 using the same printer with different oracles. WITH COMPONENTS and other unsupported syntax are not generated.",
   "5/C07"),
 "C08": ("vfront",
   "property-based round trip of the generated #[asn(..)] attributes through the macro parser (part a, proptest) + comparison of compiled descriptor constants with the abstract schema (part b)",
   "Part a: generated modules -> to_rust = M; the emitted Rust file is parsed with syn, every #[asn(..)] item is re-read by proc_macro::parse_asn_definition and compared with M (asn1rs's PartialEq) modulo documented derived tags. Part b (vrt): every compiled zoo type is walked with a recording Reader; kind, MIN/MAX/EXTENSIBLE, STD_OPTIONAL_FIELDS/FIELD_COUNT/EXTENDED_AFTER_FIELD, VARIANT_COUNT/STD_VARIANT_COUNT, integer width, OPTIONAL/DEFAULT wrapping and visiting order == abstract schema.",
   "Part b sees only constants that reach a visitor; TAG is covered by C16 part a. Item-name collisions fall under the open C09 findings.",
   "5/C08"),
 "C09": ("vfront",
   "property-based testing with rustc as oracle: generated modules are compiled (cargo check, offline) through asn_to_rust!, failures minimised per module",
   "A systematic identifier table (every Rust keyword and prelude-like name as component - mandatory / OPTIONAL / DEFAULT / in front of and behind the extension marker -, as CHOICE alternative and as ENUMERATED item; ENUMERATED items with non-idempotent name mangling as DEFAULT), generated front-end-profile modules with an identifier pool, every DEFAULT literal kind, value references, plus a sample of the zoo. A module accepted by the in-process front end must compile: one crate with one file per module is cargo-checked against the current tree, JSON diagnostics are mapped back to modules, failing modules removed and the batch re-checked until clean; each failing module is then greedily minimised.",
   "Slow oracle (rustc): the quick tier covers ~150 modules per run. Eight open findings exclude their shapes by construction (probed on every run).",
   "5/C09"),
 "C12": ("vfront",
   "metamorphic property testing (proptest): literal module vs. referencing variant across all load orders, plus negative variants",
   "A random subset of the literal sites of a generated module (in every fourth case with ranges / sizes made degenerate n..n) is replaced by value references assigned before/after the use or in 1..3 sibling modules imported by name, by OID, by both, or by name with an OID that names a further version arc; for every load order into MultiModuleResolver (and try_resolve) the resolved definitions equal those of the literal module; every third scenario has DEFAULT components typed by references that cannot be looked up. Negative variants (missing assignment, removed import with a same-named symbol elsewhere, exporter not loaded, BOOLEAN / character string / hstring / bstring where an integer is needed) must give Err for every load order.",
   "Load orders are enumerated completely up to 4 modules.",
   "5/C12"),
 "C13": ("vfront",
   "metamorphic property testing (proptest) over token layouts with comments; token-sequence, model and Location oracles",
   "Generated modules are printed as lexical items; a layout picks a separator per boundary from {empty, blank, tab, LF, CRLF, CR, long runs of blanks / line breaks (columns and lines beyond 255 / 4095 / 65535), line / block / nested block comments with varied text (incl. continuation lines starting with --) and adjacency}, with and without a final newline. Token sequence and resolved model must equal those of the plain layout and (ASCII) each token's Location must equal the line/column where the printer put it.",
   "Location columns are compared for ASCII layouts only (non-ASCII comments are generated but only token/model equality is judged there).",
   "5/C13"),
 "C14": ("vfront",
   "mutation-based fuzzing of the front end (proptest edit generators over valid texts + token soups) with a no-panic / error-location oracle and watchdog",
   "Generator output and the literal modules of /repo/tests receive 1..4 edits - syntactic (delete, duplicate, swap, insert, replace, truncate, over-long number, open comment) and well-formed-but-odd (swap two numbers, boundary numbers, import from the own module, non-ASCII characters inside literals, snippets with alias cycles / recursive types / cyclic values / unknown names / duplicates) - or are replaced by token soups; a twin module makes every import mutual; Tokenizer -> Model::try_from -> try_resolve / MultiModuleResolver -> to_rust -> to_protobuf must return Ok or Err: no panic (except the documented unclosed-comment panic on a really unterminated '/*'), error tokens inside the input, no case over 20 s of CPU time.",
   "Sampled; coverage-guided libFuzzer target extends it in the thorough tier.",
   "5/C14"),
 "C15": ("vfront",
   "bounded-exhaustive enumeration of INTEGER constraints over a boundary family with an independent width/sign oracle",
   "All ordered pairs from B = {0, +-1, +-2^k, +-2^k+-1 (k<=63)} U [-20,20] as (min..max) and (min..max,...), every b as (b..MAX), (MIN..b) and extensible forms, plus INTEGER / (MIN..MAX): as top-level definition, as SEQUENCE field and as the type of a module-level value reference (constant: wide enough, 64-bit when extensible) through tokenizer, parser, resolver, to_rust and RustCodeGenerator; Rust type, model bounds and generated *_min()/*_max() bodies == oracle.",
   "Exhaustive over the stated family only. (MIN..ub) non-extensible is an open finding pinned by a repository test.",
   "5/C15"),
 "C16": ("vfront",
   "bounded-exhaustive permutation testing on the macro expansion (part a) + property-based differential testing of compiled SET types against the reference codec (part b)",
   "Part a: for every pair of untagged candidates with different outermost tags (builtin types, inline SEQUENCE / SEQUENCE OF / SET / SET OF / ENUMERATED, references incl. an extensible untagged CHOICE whose extension alternative has the smallest tag) next to one tagged component, and for generated multisets of 2..5 components (four tag classes, tag numbers up to 1011, OPTIONAL / DEFAULT, with/without extension marker) ALL root permutations are printed as SET, expanded through asn_to_rust -> syn -> parse_asn_definition -> expand; write_seq/read_seq order and TAG constants == own X.680 8.6 implementation. Part b (vrt): a compiled family in three permutations each; UPER bits and presence-bit order == reference codec.",
   "Extension additions are generated with tags ascending in textual order (where canonical order and order of definition coincide).",
   "5/C16"),
 "C17": ("vrt",
   "property-based round trip (proptest) over the compiled zoo with proto3 default-equivalence normalisation; growable vs. slice writer differential",
   "For every compiled zoo type and generated values (integer extremes of every width/sign, out-of-root extensible values, CHOICE in CHOICE, NULL, BIT STRING, empty strings/lists, present default-ish optionals): ProtobufWriter::default() bytes == ProtobufWriter::from(&mut [u8]) bytes with an exactly sized slice; a slice one byte short gives Err; ProtobufReader returns the value up to pnorm (present optional == Rust default of its type is absent).",
   "pnorm mirrors ProtobufEq. Nested lists and lists as CHOICE alternatives are open findings (excluded, probed).",
   "5/C17"),
 "C18": ("vrt",
   "property-based differential testing: independent proto3 parser/validator on generated .proto files (part a, protoc as second opinion) + independent schema-directed wire decoder on the writer's bytes (part b)",
   "Part a (vfront): generated modules -> .proto of ProtobufDefGenerator -> own proto3 parser: syntax, unique names/numbers incl. oneof members and the oneof's own name, legal numbers, first enum value 0, references exist, no repeated-in-oneof / repeated repeated, valid package; module pairs with imported types are validated as a file set (package-qualified names, import lines). Part b: for every compiled zoo type the .proto of its module is parsed and the bytes ProtobufWriter produced for generated values are decoded by an independent wire decoder that takes field numbers, scalar types, repeated-ness, oneof membership, enum numbers and nesting from the .proto only; undeclared numbers, wrong wire types, several oneof members are violations; decoded value == written value after pnorm.",
   "Components are paired with declared fields by name (case/punctuation-insensitive), by position where names do not pair up. BIT STRING uses asn1rs's bytes+bit-count convention. Top-level ENUMERATED has no message. 32-bit varints are truncated as a conforming parser does.",
   "5/C18"),
 "C19": ("vrt",
   "differential testing of two feature builds of the same runner on proptest-generated valid, faulty and random inputs",
   "A vector file (zoo type, bytes, bit length) of valid encodings, 1..3-fault mutations and random bytes is decoded by vdiff built from the current tree with default features and with descriptive-deserialize-errors; Ok(value hash)/Err(kind+payload)/reader position tables must be identical line by line.",
   "Backtraces and the descriptive scope trace are excluded from the comparison by design (they are what the feature adds).",
   "5/C19"),
}

NOT_YET = {
}

def main():
    props = [json.loads(l) for l in open("/verif/properties.jsonl")]
    checks = []
    na = []
    for p in props:
        pid = p["id"]
        if pid in CHECKS:
            engine, technique, text, note, ref = CHECKS[pid]
            checks.append({
                "property_id": pid,
                "quick_cmd": f"./check {pid} quick",
                "thorough_cmd": f"./check {pid} thorough",
                "evidence_file": f"/verif/evidence/{pid}.json",
                "replay_cmd_template": f"./check {pid} --replay {{path}}",
                "engine": engine,
                "level_claimed": {"category": "exploration", "text": text, "design_ref": f"DESIGN.md section {ref}"},
                "level_note": note,
                "technique": technique,
            })
        else:
            na.append({"property_id": pid, "reason": NOT_YET.get(pid, "check not built yet in this round (designed in DESIGN.md section 5; property-based testing applies)")})
    m = {
        "version": 1,
        "setup_cmd": "./setup.sh",
        "hooks": {
            "guard": "kellerkindt_asn1rs_verif",
            "enable": "no instrumentation hooks are needed: all observation points are public API (DESIGN.md section 11); checks build /repo as is",
            "baseline_off_cmd": BASELINE,
            "source_commits": [],
            "add_only": True,
        },
        "engines": [
            {"name": "vprim", "path": "/verif/engine/vprim", "serves_properties": ["C10", "C11", "C20"],
             "kind_free_text": "Rust binary using proptest + bounded-exhaustive enumeration against models/reference primitives; runs its body in 16 worker processes"},
            {"name": "vrt", "path": "/verif/engine/vrt", "serves_properties": ["C01", "C02", "C03", "C04", "C05", "C06", "C08", "C16", "C17", "C18", "C19"],
             "kind_free_text": "Rust binary over a type zoo compiled from generated ASN.1 through asn_to_rust! (zoogen -> zoo crates); proptest value strategies, reference X.691 codec, independent protobuf decoder, bridges over the public Reader/Writer traits; part b of the two-part checks C08/C16/C18"},
            {"name": "vfront", "path": "/verif/engine/vfront", "serves_properties": ["C07", "C08", "C09", "C12", "C13", "C14", "C15", "C16", "C18"],
             "kind_free_text": "Rust binary driving the front end in-process (tokenizer, parser, resolver, to_rust, code generator, attribute macro parser / expander via asn1rs_model::proc_macro, .proto generator) on grammar-generated modules (proptest); rustc (cargo check) as oracle for C09; part a of C08/C16/C18"},
            {"name": "vdiff", "path": "/verif/engine/vdiff", "serves_properties": ["C19"],
             "kind_free_text": "runner built twice (default features / descriptive-deserialize-errors) that decodes a vector file and prints a result table; compared by vrt"},
        ],
        "checks": checks,
        "notes": "All checks: ./check <ID> <quick|thorough>; exit 0 held / 1 violation / 2 infrastructure. Known findings: /verif/KNOWN_FINDINGS.txt. Seeds: VERIF_SEED.",
        "not_applicable": na,
    }
    json.dump(m, open("/verif/MANIFEST.json", "w"), indent=1)
    print(f"{len(checks)} checks, {len(na)} not claimed")

main()
