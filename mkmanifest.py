#!/usr/bin/env python3
"""Writes MANIFEST.json from the table below (kept in one place so the manifest stays consistent)."""
import json

BASELINE = ("cd /repo && cargo nextest run --workspace --no-fail-fast --tool-config-file pb:/w/lib/nextest.toml "
            "--profile pb --test-threads 8 --offline || cargo test --workspace --no-fail-fast --offline")

# id -> (engine, technique, level text, level note, design ref)
CHECKS = {
 "C11": ("vprim",
   "bounded-exhaustive enumeration + proptest random cases and operation histories against a Vec<bool> model",
   "Every single write/read operation on (&mut [u8], &mut usize), (&[u8], &mut usize) and Bits with both buffers up to 5 bytes "
   "(6 in thorough) is enumerated completely with three fill patterns and compared bit for bit with a naive bit-vector model; random "
   "buffers up to 64 bytes and random BitBuffer operation histories (proptest, shrinking) extend this beyond the enumerated sizes. "
   "Exploration, not proof: sizes beyond the enumeration are sampled.",
   "Trusted: the Vec<bool> model in vcore::bitmodel (20 lines). Derived-length operations are called only within their precondition "
   "(offset <= 8*len). Nothing is asserted about slice content after Err.",
   "5/C11"),
}

NOT_YET = {
}

def main():
    props = [json.loads(l) for l in open("/verif/properties.jsonl")]
    checks = []
    na = []
    for p in props:
        pid = p["id"]
        if pid in CHECKS:
            engine, technique, text, note, ref = CHECKS[pid]
            checks.append({
                "property_id": pid,
                "quick_cmd": f"./check {pid} quick",
                "thorough_cmd": f"./check {pid} thorough",
                "evidence_file": f"/verif/evidence/{pid}.json",
                "replay_cmd_template": f"./check {pid} --replay {{path}}",
                "engine": engine,
                "level_claimed": {"category": "exploration", "text": text, "design_ref": f"DESIGN.md section {ref}"},
                "level_note": note,
                "technique": technique,
            })
        else:
            na.append({"property_id": pid, "reason": NOT_YET.get(pid, "check not built yet in this round (designed in DESIGN.md section 5; property-based testing applies)")})
    m = {
        "version": 1,
        "setup_cmd": "./setup.sh",
        "hooks": {
            "guard": "kellerkindt_asn1rs_verif",
            "enable": "no instrumentation hooks are needed: all observation points are public API (DESIGN.md section 11); checks build /repo as is",
            "baseline_off_cmd": BASELINE,
            "source_commits": [],
            "add_only": True,
        },
        "engines": [
            {"name": "vprim", "path": "/verif/engine/vprim", "serves_properties": ["C10", "C11", "C20"],
             "kind_free_text": "Rust binary using proptest + bounded-exhaustive enumeration against models/reference primitives; runs its body in 16 worker processes"},
        ],
        "checks": checks,
        "notes": "All checks: ./check <ID> <quick|thorough>; exit 0 held / 1 violation / 2 infrastructure. Known findings: /verif/KNOWN_FINDINGS.txt. Seeds: VERIF_SEED.",
        "not_applicable": na,
    }
    json.dump(m, open("/verif/MANIFEST.json", "w"), indent=1)
    print(f"{len(checks)} checks, {len(na)} not claimed")

main()
