use asn1rs::protocol::per::ErrorKind;

/// Variant name of a PER error kind (formatting the kind itself would format a backtrace).
#[allow(unreachable_patterns)]
pub fn kind_name(k: &ErrorKind) -> &'static str {
    match k {
        ErrorKind::FromUtf8Error(_) => "FromUtf8Error",
        ErrorKind::InvalidString(..) => "InvalidString",
        ErrorKind::UnsupportedOperation(_) => "UnsupportedOperation",
        ErrorKind::InsufficientSpaceInDestinationBuffer(_) => "InsufficientSpaceInDestinationBuffer",
        ErrorKind::InsufficientDataInSourceBuffer(_) => "InsufficientDataInSourceBuffer",
        ErrorKind::LengthDeterminantExceedsLimit { .. } => "LengthDeterminantExceedsLimit",
        ErrorKind::InvalidChoiceIndex(..) => "InvalidChoiceIndex",
        ErrorKind::ExtensionFieldsInconsistent(_) => "ExtensionFieldsInconsistent",
        ErrorKind::ValueNotInRange(..) => "ValueNotInRange",
        ErrorKind::ValueExceedsMaxInt => "ValueExceedsMaxInt",
        ErrorKind::ValueIsNegativeButExpectedUnsigned(_) => "ValueIsNegativeButExpectedUnsigned",
        ErrorKind::SizeNotInRange(..) => "SizeNotInRange",
        ErrorKind::BitLenNotInRange(..) => "BitLenNotInRange",
        ErrorKind::OptFlagsExhausted => "OptFlagsExhausted",
        ErrorKind::EndOfStream => "EndOfStream",
        _ => "Other",
    }
}
