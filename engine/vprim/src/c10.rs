//! C10 — PER primitive codecs are correct for every runtime bound and value.
//!
//! For each public `PackedWrite`/`PackedRead` primitive: bits and bit count == reference (X.691,
//! vcore::refper); the matching read returns the value and advances the read position by exactly
//! the produced bits; inadmissible arguments yield `Err` — not a panic, not `Ok` with a wrapped
//! value. "Admissible" = the value lies within the stated bounds (method contracts in
//! src/protocol/per/mod.rs); bound pairs with ub < lb are never generated.

use asn1rs::protocol::per::unaligned::buffer::{BitBuffer, Bits};
use asn1rs::protocol::per::unaligned::ScopedBitRead;
use asn1rs::protocol::per::{PackedRead, PackedWrite};
use proptest::prelude::*;
use rayon::prelude::*;
use serde_json::{json, Value as J};
use vcore::bitmodel::*;
use vcore::harness::*;
use vcore::refper as rp;

#[derive(Clone, Debug, PartialEq, Eq, Hash)]
pub enum Prim {
    Constrained { lb: i64, ub: i64, v: i64 },
    Semi { lb: i64, v: i64 },
    Unconstrained { v: i64 },
    NormallySmall { v: u64 },
    /// asn1rs convention: the caller passes (count - 1); bit-exactness is asserted for v <= 63 only
    NormallySmallLength { v: u64 },
    LengthDet { lb: Option<u64>, ub: Option<u64>, n: u64 },
    Index { choice: bool, root: u64, ext: bool, idx: u64 },
    Octets { lb: Option<u64>, ub: Option<u64>, ext: bool, len: usize, fill: u8 },
    Bits { lb: Option<u64>, ub: Option<u64>, ext: bool, off: usize, len: usize, fill: u8, src_extra: usize },
}

fn opt(j: &J) -> Option<u64> {
    if j.is_null() {
        None
    } else {
        Some(j.as_str().unwrap().parse().unwrap())
    }
}
fn optj(o: &Option<u64>) -> J {
    match o {
        None => J::Null,
        Some(v) => json!(v.to_string()),
    }
}

impl Prim {
    pub fn to_json(&self) -> J {
        match self {
            Prim::Constrained { lb, ub, v } => json!({"p": "constrained", "lb": lb.to_string(), "ub": ub.to_string(), "v": v.to_string()}),
            Prim::Semi { lb, v } => json!({"p": "semi", "lb": lb.to_string(), "v": v.to_string()}),
            Prim::Unconstrained { v } => json!({"p": "unconstrained", "v": v.to_string()}),
            Prim::NormallySmall { v } => json!({"p": "normally_small", "v": v.to_string()}),
            Prim::NormallySmallLength { v } => json!({"p": "normally_small_length", "v": v.to_string()}),
            Prim::LengthDet { lb, ub, n } => json!({"p": "length", "lb": optj(lb), "ub": optj(ub), "n": n.to_string()}),
            Prim::Index { choice, root, ext, idx } => json!({"p": "index", "choice": choice, "root": root.to_string(), "ext": ext, "idx": idx.to_string()}),
            Prim::Octets { lb, ub, ext, len, fill } => json!({"p": "octets", "lb": optj(lb), "ub": optj(ub), "ext": ext, "len": len, "fill": fill}),
            Prim::Bits { lb, ub, ext, off, len, fill, src_extra } => json!({"p": "bits", "lb": optj(lb), "ub": optj(ub), "ext": ext, "off": off, "len": len, "fill": fill, "src_extra": src_extra}),
        }
    }
    pub fn from_json(j: &J) -> Prim {
        let s = |k: &str| j[k].as_str().unwrap().to_string();
        let u = |k: &str| j[k].as_u64().unwrap() as usize;
        match j["p"].as_str().unwrap() {
            "constrained" => Prim::Constrained { lb: s("lb").parse().unwrap(), ub: s("ub").parse().unwrap(), v: s("v").parse().unwrap() },
            "semi" => Prim::Semi { lb: s("lb").parse().unwrap(), v: s("v").parse().unwrap() },
            "unconstrained" => Prim::Unconstrained { v: s("v").parse().unwrap() },
            "normally_small" => Prim::NormallySmall { v: s("v").parse().unwrap() },
            "normally_small_length" => Prim::NormallySmallLength { v: s("v").parse().unwrap() },
            "length" => Prim::LengthDet { lb: opt(&j["lb"]), ub: opt(&j["ub"]), n: s("n").parse().unwrap() },
            "index" => Prim::Index { choice: j["choice"].as_bool().unwrap(), root: s("root").parse().unwrap(), ext: j["ext"].as_bool().unwrap(), idx: s("idx").parse().unwrap() },
            "octets" => Prim::Octets { lb: opt(&j["lb"]), ub: opt(&j["ub"]), ext: j["ext"].as_bool().unwrap(), len: u("len"), fill: u("fill") as u8 },
            _ => Prim::Bits { lb: opt(&j["lb"]), ub: opt(&j["ub"]), ext: j["ext"].as_bool().unwrap(), off: u("off"), len: u("len"), fill: u("fill") as u8, src_extra: u("src_extra") },
        }
    }
    fn name(&self) -> &'static str {
        match self {
            Prim::Constrained { .. } => "constrained_whole_number",
            Prim::Semi { .. } => "semi_constrained_whole_number",
            Prim::Unconstrained { .. } => "unconstrained_whole_number",
            Prim::NormallySmall { .. } => "normally_small_non_negative_whole_number",
            Prim::NormallySmallLength { .. } => "normally_small_length",
            Prim::LengthDet { .. } => "length_determinant",
            Prim::Index { choice: true, .. } => "choice_index",
            Prim::Index { .. } => "enumeration_index",
            Prim::Octets { .. } => "octetstring",
            Prim::Bits { .. } => "bitstring",
        }
    }
}

fn data(len: usize, fill: u8) -> Vec<u8> {
    // position dependent so that a dropped, duplicated or shifted fragment is visible
    (0..len).map(|i| fill ^ (i as u8).wrapping_mul(31) ^ ((i >> 8) as u8).wrapping_mul(7) ^ ((i >> 14) as u8).wrapping_mul(101)).collect()
}

type Fail = (String, String);

#[derive(Debug, PartialEq)]
enum Val {
    I(i128),
    Bytes(Vec<u8>),
    BitsV(Vec<bool>),
}

/// What the standard prescribes for one call: None = inadmissible (must be Err);
/// Some((bits or None when bit-exactness is not asserted, value the read must return))
fn reference(p: &Prim) -> Option<(Option<Vec<bool>>, Val)> {
    let mut s = BitSink::new();
    match p {
        Prim::Constrained { lb, ub, v } => {
            if v < lb || v > ub {
                return None;
            }
            rp::enc_constrained(&mut s, *lb as i128, *ub as i128, *v as i128);
            Some((Some(s.bits), Val::I(*v as i128)))
        }
        Prim::Semi { lb, v } => {
            if v < lb {
                return None;
            }
            rp::enc_semi(&mut s, *lb as i128, *v as i128);
            Some((Some(s.bits), Val::I(*v as i128)))
        }
        Prim::Unconstrained { v } => {
            rp::enc_unconstrained(&mut s, *v as i128);
            Some((Some(s.bits), Val::I(*v as i128)))
        }
        Prim::NormallySmall { v } => {
            rp::enc_normally_small(&mut s, *v as u128);
            Some((Some(s.bits), Val::I(*v as i128)))
        }
        Prim::NormallySmallLength { v } => {
            if *v <= 63 {
                rp::enc_normally_small_length(&mut s, *v as usize + 1);
                Some((Some(s.bits), Val::I(*v as i128)))
            } else {
                Some((None, Val::I(*v as i128)))
            }
        }
        Prim::LengthDet { lb, ub, n } => {
            let lbv = lb.unwrap_or(0);
            if *n < lbv || ub.map(|u| *n > u).unwrap_or(false) {
                return None;
            }
            match rp::len_form(lb.map(|v| v as u128), ub.map(|v| v as u128)) {
                rp::LenForm::Fixed(_) => Some((Some(vec![]), Val::I(*n as i128))),
                rp::LenForm::Constrained(l, u) => {
                    rp::enc_constrained(&mut s, l as i128, u as i128, *n as i128);
                    Some((Some(s.bits), Val::I(*n as i128)))
                }
                rp::LenForm::Unconstrained => {
                    if (*n as usize) < rp::K16 {
                        rp::enc_len_small(&mut s, *n as usize);
                        Some((Some(s.bits), Val::I(*n as i128)))
                    } else {
                        // a single call announces the first fragment only: 11 + multiplier
                        let m = (*n as usize / rp::K16).min(4);
                        s.push(true);
                        s.push(true);
                        s.push_uint(m as u128, 6);
                        Some((Some(s.bits), Val::I((m * rp::K16) as i128)))
                    }
                }
            }
        }
        Prim::Index { root, ext, idx, .. } => {
            if !*ext && idx >= root {
                return None;
            }
            rp::enc_index(&mut s, *root as u128, *ext, *idx as u128);
            Some((Some(s.bits), Val::I(*idx as i128)))
        }
        Prim::Octets { lb, ub, ext, len, fill } => {
            let n = *len as u64;
            let in_root = n >= lb.unwrap_or(0) && ub.map(|u| n <= u).unwrap_or(true);
            if !*ext && !in_root {
                return None;
            }
            let d = data(*len, *fill);
            rp::enc_sized(&mut s, lb.map(|v| v as u128), ub.map(|v| v as u128), *ext, *len, &mut |s, a, b| s.push_bytes(&d[a..b]));
            Some((Some(s.bits), Val::Bytes(d)))
        }
        Prim::Bits { lb, ub, ext, off, len, fill, src_extra } => {
            let n = *len as u64;
            let in_root = n >= lb.unwrap_or(0) && ub.map(|u| n <= u).unwrap_or(true);
            if !*ext && !in_root {
                return None;
            }
            let src = bits_src(*off, *len, *fill, *src_extra);
            let all = bits_of(&src);
            let d: Vec<bool> = all[*off..*off + *len].to_vec();
            rp::enc_sized(&mut s, lb.map(|v| v as u128), ub.map(|v| v as u128), *ext, *len, &mut |s, a, b| s.push_bits(&d[a..b]));
            Some((Some(s.bits), Val::BitsV(d)))
        }
    }
}

fn bits_src(off: usize, len: usize, fill: u8, extra: usize) -> Vec<u8> {
    data((off + len + 7) / 8 + extra, fill)
}

const SENTINEL: u8 = 0xA5;

pub fn check_prim(p: &Prim) -> Result<(), Fail> {
    let name = p.name();
    let expect = reference(p);
    let mut buf = BitBuffer::default();
    // a leading bit so that the primitive does not start byte-aligned in every case
    let lead = matches!(p, Prim::Octets { fill, .. } | Prim::Bits { fill, .. } if fill & 1 == 1) as usize;
    if lead == 1 {
        asn1rs::protocol::per::unaligned::BitWrite::write_bit(&mut buf, true).unwrap();
    }
    let wres = catch(|| match p {
        Prim::Constrained { lb, ub, v } => buf.write_constrained_whole_number(*lb, *ub, *v).map(|_| None),
        Prim::Semi { lb, v } => buf.write_semi_constrained_whole_number(*lb, *v).map(|_| None),
        Prim::Unconstrained { v } => buf.write_unconstrained_whole_number(*v).map(|_| None),
        Prim::NormallySmall { v } => buf.write_normally_small_non_negative_whole_number(*v).map(|_| None),
        Prim::NormallySmallLength { v } => buf.write_normally_small_length(*v).map(|_| None),
        Prim::LengthDet { lb, ub, n } => buf.write_length_determinant(*lb, *ub, *n).map(Some),
        Prim::Index { choice: true, root, ext, idx } => buf.write_choice_index(*root, *ext, *idx).map(|_| None),
        Prim::Index { root, ext, idx, .. } => buf.write_enumeration_index(*root, *ext, *idx).map(|_| None),
        Prim::Octets { lb, ub, ext, len, fill } => buf.write_octetstring(*lb, *ub, *ext, &data(*len, *fill)).map(|_| None),
        Prim::Bits { lb, ub, ext, off, len, fill, src_extra } => {
            buf.write_bitstring(*lb, *ub, *ext, &bits_src(*off, *len, *fill, *src_extra), *off as u64, *len as u64).map(|_| None)
        }
    });
    let wres = match wres {
        Err(pn) => return Err((format!("{name}:write-panic"), format!("write panicked: {pn}"))),
        Ok(r) => r,
    };
    let (want_bits, want_val) = match expect {
        None => {
            // inadmissible: must be Err
            return match wres {
                Err(_) => Ok(()),
                Ok(_) => Err((format!("{name}:inadmissible-accepted"), format!("inadmissible arguments accepted: write returned Ok ({} bits written)", buf.bit_len() - lead))),
            };
        }
        Some(x) => x,
    };
    let frag = match wres {
        Err(e) => return Err((format!("{name}:admissible-rejected"), format!("admissible arguments rejected with Err({})", crate::util::kind_name(e.kind())))),
        Ok(f) => f,
    };
    let produced = buf.bit_len() - lead;
    let got_bits: Vec<bool> = bits_of(buf.content())[lead..lead + produced].to_vec();
    if let Some(want) = &want_bits {
        if &got_bits != want {
            let first = got_bits.iter().zip(want.iter()).position(|(a, b)| a != b).unwrap_or(got_bits.len().min(want.len()));
            let show = |b: &[bool]| if b.len() <= 96 { bitstr(b) } else { format!("{}… ({} bits)", bitstr(&b[..96]), b.len()) };
            return Err((
                format!("{name}:bits"),
                format!("bits differ from X.691 at bit {first}: got {} want {}", show(&got_bits), show(want)),
            ));
        }
    }
    if let Prim::LengthDet { n, .. } = p {
        // the returned fragment size must be what was announced
        let announced = match want_val {
            Val::I(a) => a as u64,
            _ => unreachable!(),
        };
        let ret = frag.flatten();
        let ok = if announced == *n { ret.is_none() || ret == Some(*n) } else { ret == Some(announced) };
        if !ok {
            return Err((format!("{name}:fragment-size"), format!("announced {announced} of {n} items but returned {ret:?}")));
        }
    }
    // sentinel behind the primitive, then read everything back
    buf.write_constrained_whole_number(0, 255, SENTINEL as i64).map_err(|_| ("sentinel".to_string(), "cannot write sentinel".to_string()))?;
    let full_content = buf.content().to_vec();
    let full_total = buf.bit_len();
    // passes 0 / 1: Bits / BitBuffer with the sentinel behind the primitive; passes 2 / 3: the same
    // readers on a source that ends exactly with the primitive (a zero-width primitive is then read
    // at the very end of the data)
    for pass in 0..4 {
        let reader_kind = pass % 2;
        let exact_end = pass >= 2;
        let total = if exact_end { lead + produced } else { full_total };
        let content: Vec<u8> = if exact_end { full_content[..(total + 7) / 8].to_vec() } else { full_content.clone() };
        let mut bits = Bits::from((&content[..], total));
        let mut bb = BitBuffer::from_bits(content.clone(), total);
        macro_rules! rd {
            ($m:ident ( $($a:expr),* )) => {
                if reader_kind == 0 { bits.$m($($a),*) } else { bb.$m($($a),*) }
            };
        }
        if lead == 1 {
            let _ = rd!(read_boolean());
        }
        let rres = catch(|| -> Result<Val, asn1rs::protocol::per::Error> {
            Ok(match p {
                Prim::Constrained { lb, ub, .. } => Val::I(rd!(read_constrained_whole_number(*lb, *ub))? as i128),
                Prim::Semi { lb, .. } => Val::I(rd!(read_semi_constrained_whole_number(*lb))? as i128),
                Prim::Unconstrained { .. } => Val::I(rd!(read_unconstrained_whole_number())? as i128),
                Prim::NormallySmall { .. } => Val::I(rd!(read_normally_small_non_negative_whole_number())? as i128),
                Prim::NormallySmallLength { .. } => Val::I(rd!(read_normally_small_length())? as i128),
                Prim::LengthDet { lb, ub, .. } => Val::I(rd!(read_length_determinant(*lb, *ub))? as i128),
                Prim::Index { choice: true, root, ext, .. } => Val::I(rd!(read_choice_index(*root, *ext))? as i128),
                Prim::Index { root, ext, .. } => Val::I(rd!(read_enumeration_index(*root, *ext))? as i128),
                Prim::Octets { lb, ub, ext, .. } => Val::Bytes(rd!(read_octetstring(*lb, *ub, *ext))?),
                Prim::Bits { lb, ub, ext, .. } => {
                    let (bytes, n) = rd!(read_bitstring(*lb, *ub, *ext))?;
                    let mut b = bits_of(&bytes);
                    if (n as usize) > b.len() {
                        return Ok(Val::I(-1));
                    }
                    b.truncate(n as usize);
                    Val::BitsV(b)
                }
            })
        });
        let rk = ["Bits", "BitBuffer", "Bits ending with the primitive", "BitBuffer ending with the primitive"][pass];
        let got = match rres {
            Err(pn) => return Err((format!("{name}:read-panic"), format!("read ({rk}) of the written bits panicked: {pn}"))),
            Ok(Err(e)) => return Err((format!("{name}:read-error"), format!("read ({rk}) of the written bits failed: Err({})", crate::util::kind_name(e.kind())))),
            Ok(Ok(v)) => v,
        };
        if got != want_val {
            let show = |v: &Val| match v {
                Val::I(i) => format!("{i}"),
                Val::Bytes(b) => format!("{} octets {}…", b.len(), hex(&b[..b.len().min(12)])),
                Val::BitsV(b) => format!("{} bits {}…", b.len(), bitstr(&b[..b.len().min(48)])),
            };
            return Err((format!("{name}:read-value"), format!("read ({rk}) returned {} but {} was written", show(&got), show(&want_val))));
        }
        if reader_kind == 0 && bits.pos() != lead + produced {
            return Err((format!("{name}:read-position"), format!("write produced {produced} bits, read advanced the position by {}", bits.pos() - lead)));
        }
        if exact_end {
            continue;
        }
        let sent = catch(|| rd!(read_constrained_whole_number(0, 255)));
        match sent {
            Ok(Ok(v)) if v == SENTINEL as i64 => {}
            other => {
                return Err((
                    format!("{name}:read-position"),
                    format!("the value following the primitive does not read back ({rk}): {:?}", other.map(|r| r.map_err(|e| crate::util::kind_name(e.kind())))),
                ))
            }
        }
    }
    Ok(())
}

fn nontrivial(p: &Prim) -> bool {
    match p {
        Prim::Constrained { lb, ub, .. } => ub > lb,
        Prim::LengthDet { lb, ub, .. } => lb.is_none() || *lb != *ub,
        Prim::Index { root, ext, .. } => *root > 1 || *ext,
        Prim::Octets { len, .. } | Prim::Bits { len, .. } => *len > 0,
        _ => true,
    }
}

fn class_of(p: &Prim) -> String {
    let adm = if reference(p).is_some() { "admissible" } else { "inadmissible" };
    match p {
        Prim::LengthDet { n, ub, .. } => {
            let form = match ub {
                Some(u) if *u < 65536 => "constrained",
                Some(_) => "ub>=64K",
                None => "unbounded",
            };
            let sz = if *n < 128 { "<128" } else if *n < 16384 { "<16K" } else if *n % 16384 == 0 { "k*16K" } else { ">16K" };
            format!("length_determinant/{form}/{sz}/{adm}")
        }
        Prim::Octets { len, ext, ub, .. } | Prim::Bits { len, ext, ub, .. } => {
            let sz = if *len < 128 { "<128" } else if *len < 16384 { "<16K" } else if *len % 16384 == 0 { "k*16K" } else if *len < 65536 { "<64K" } else { ">=64K" };
            let form = match ub {
                Some(u) if *u < 65536 => "ub<64K",
                Some(_) => "ub>=64K",
                None => "unbounded",
            };
            format!("{}/{form}/{}{sz}/{adm}", p.name(), if *ext { "ext/" } else { "" })
        }
        Prim::Index { root, ext, idx, .. } => format!("{}/{}{}/{adm}", p.name(), if *ext { "ext/" } else { "" }, if idx < root { "root" } else if idx - root < 64 { "addition<64" } else { "addition>=64" }),
        _ => format!("{}/{adm}", p.name()),
    }
}

// ------------------------------------------------------------------------------------------
// families

pub fn i64_family() -> Vec<i64> {
    let mut v = vec![0i64, 1, -1, i64::MIN, i64::MAX, i64::MIN + 1, i64::MAX - 1];
    for k in 0..=63u32 {
        let p = 1i128 << k;
        for d in [-1i128, 0, 1] {
            for s in [1i128, -1] {
                let x = s * p + d;
                if x >= i64::MIN as i128 && x <= i64::MAX as i128 {
                    v.push(x as i64);
                }
            }
        }
    }
    for x in [127, 128, 255, 256, 16383, 16384, 65535, 65536] {
        v.push(x);
        v.push(-x);
    }
    v.sort();
    v.dedup();
    v
}

fn len_family() -> Vec<u64> {
    let mut v: Vec<u64> = vec![0, 1, 2, 3, 15, 16, 17, 63, 64, 65, 126, 127, 128, 129, 255, 256, 257, 1000, 16382, 16383, 16384, 16385, 32767, 32768, 32769, 49152, 49153, 65534, 65535, 65536, 65537, 70000, 81919, 81920, 81921, 98304, 131072, 131073, 147455, 163840, 200000];
    // every fragment-count class: n mod 16384 in {0, 1, 16383} for 1..13 fragments
    for k in 1..=13u64 {
        for r in [0u64, 1, 16383] {
            v.push(k * 16384 + r);
        }
    }
    v.sort();
    v.dedup();
    v
}

fn size_bounds() -> Vec<(Option<u64>, Option<u64>)> {
    let mut v = vec![(None, None)];
    let ubs: Vec<u64> = vec![0, 1, 2, 3, 16, 17, 126, 127, 128, 129, 255, 256, 16383, 16384, 16385, 65534, 65535, 65536, 65537, 100000, 200000, 1 << 32];
    for &ub in &ubs {
        v.push((None, Some(ub)));
        for lb in [0u64, 1, 2, 127, 128, 16384, 65535, 65536] {
            if lb <= ub {
                v.push((Some(lb), Some(ub)));
            }
        }
        v.push((Some(ub), Some(ub)));
    }
    for lb in [0u64, 1, 5, 128, 16384, 70000] {
        v.push((Some(lb), None));
    }
    v.sort();
    v.dedup();
    v
}

fn family_cases(tier: Tier) -> Vec<Prim> {
    let mut out = Vec::new();
    let fam = i64_family();
    // constrained: all ordered pairs of the family x values around the bounds
    for &lb in &fam {
        for &ub in &fam {
            if lb > ub {
                continue;
            }
            let mid = ((lb as i128 + ub as i128) / 2) as i64;
            let mut vals = vec![lb, ub, mid];
            for (b, d) in [(lb, -1i64), (lb, 1), (ub, -1), (ub, 1), (lb, -2), (ub, 2)] {
                if let Some(x) = b.checked_add(d) {
                    vals.push(x);
                }
            }
            vals.extend([i64::MIN, i64::MAX, 0]);
            vals.sort();
            vals.dedup();
            for v in vals {
                out.push(Prim::Constrained { lb, ub, v });
            }
        }
    }
    for &lb in &fam {
        for &v in &fam {
            out.push(Prim::Semi { lb, v });
        }
    }
    for &v in &fam {
        out.push(Prim::Unconstrained { v });
        if v >= 0 {
            out.push(Prim::NormallySmall { v: v as u64 });
            out.push(Prim::NormallySmallLength { v: v as u64 });
        }
    }
    for v in 0..=300u64 {
        out.push(Prim::NormallySmall { v });
        out.push(Prim::NormallySmallLength { v });
    }
    out.push(Prim::NormallySmall { v: u64::MAX });
    // length determinants
    for (lb, ub) in size_bounds() {
        for n in len_family() {
            out.push(Prim::LengthDet { lb, ub, n });
        }
        for b in [lb, ub].into_iter().flatten() {
            for d in [-1i64, 0, 1] {
                if let Some(n) = b.checked_add_signed(d) {
                    out.push(Prim::LengthDet { lb, ub, n });
                }
            }
        }
    }
    // indices
    for root in (1..=300u64).chain([1000, 65535, 65536, 65537]) {
        for ext in [false, true] {
            let mut idxs = vec![0, root / 2, root.saturating_sub(1), root, root + 1, root + 62, root + 63, root + 64, root + 65, root + 255, root + 256, root + 70000];
            idxs.sort();
            idxs.dedup();
            for idx in idxs {
                for choice in [false, true] {
                    out.push(Prim::Index { choice, root, ext, idx });
                }
            }
        }
    }
    // octet and bit strings: bounds x length classes; big ones thinned by tier
    let big_every = tier.pick(3, 1);
    let mut k = 0usize;
    for (lb, ub) in size_bounds() {
        for ext in [false, true] {
            for n in len_family() {
                let n = n as usize;
                // inadmissible sizes are cheap (rejected before copying) — keep all of them
                let in_root = (n as u64) >= lb.unwrap_or(0) && ub.map(|u| n as u64 <= u).unwrap_or(true);
                if n >= 16384 && (in_root || ext) {
                    k += 1;
                    if k % big_every != 0 {
                        continue;
                    }
                }
                out.push(Prim::Octets { lb, ub, ext, len: n, fill: (n % 251) as u8 });
                out.push(Prim::Bits { lb, ub, ext, off: n % 9, len: n, fill: (n % 253) as u8, src_extra: n % 2 });
            }
        }
    }
    out
}

fn exhaustive_constrained(report: &Report) {
    // all (lb, ub, v) with lb in [-40, 40], ub - lb <= 300, v in [lb - 2, ub + 2]
    let lbs: Vec<i64> = (-40..=40).collect();
    let mine = report.ctx.my_shards(lbs.len() as u64);
    mine.par_iter().for_each(|&i| {
        let lb = lbs[i as usize];
        let mut local = Local::default();
        for span in 0..=300i64 {
            let ub = lb + span;
            for v in lb - 2..=ub + 2 {
                let p = Prim::Constrained { lb, ub, v };
                run_one(report, &mut local, &p, false);
            }
        }
        report.merge_local(&mut local);
    });
}

fn run_one(report: &Report, local: &mut Local, p: &Prim, sample: bool) {
    local.eval();
    if nontrivial(p) {
        local.nontrivial(hash_of(p));
    }
    local.class(&class_of(p));
    if sample {
        local.sample(p.to_json());
    }
    if let Err((key, msg)) = check_prim(p) {
        report.fail(&key, &msg, json!({"prim": p.to_json()}));
    }
}

fn opt_bound() -> impl Strategy<Value = (Option<u64>, Option<u64>)> {
    let bounds = size_bounds();
    prop_oneof![
        3 => proptest::sample::select(bounds),
        2 => (0..300u64, 0..300u64).prop_map(|(a, b)| (Some(a.min(b)), Some(a.max(b)))),
        1 => (0..70000u64, 0..70000u64).prop_map(|(a, b)| (Some(a.min(b)), Some(a.max(b)))),
    ]
}

pub fn prim_strategy() -> impl Strategy<Value = Prim> {
    let fam = i64_family();
    let pick = move || prop_oneof![2 => proptest::sample::select(fam.clone()), 1 => any::<i64>(), 2 => -300..300i64];
    let lens = len_family();
    let pick_len = move || prop_oneof![2 => proptest::sample::select(lens.clone()), 3 => 0..300u64, 1 => 0..70000u64];
    prop_oneof![
        4 => (pick(), pick(), pick(), 0..6u8).prop_map(|(a, b, v, m)| {
            let (lb, ub) = (a.min(b), a.max(b));
            // mostly inside the range
            let v = if m == 0 { v } else {
                let span = (ub as i128 - lb as i128) as u128;
                (lb as i128 + ((v as u64 as u128) % (span + 1)) as i128) as i64
            };
            Prim::Constrained { lb, ub, v }
        }),
        2 => (pick(), pick()).prop_map(|(lb, v)| Prim::Semi { lb, v }),
        2 => pick().prop_map(|v| Prim::Unconstrained { v }),
        1 => prop_oneof![0..200u64, any::<u64>()].prop_map(|v| Prim::NormallySmall { v }),
        1 => prop_oneof![0..200u64, any::<u64>()].prop_map(|v| Prim::NormallySmallLength { v }),
        3 => (opt_bound(), pick_len()).prop_map(|((lb, ub), n)| Prim::LengthDet { lb, ub, n }),
        3 => (any::<bool>(), 1..400u64, any::<bool>(), 0..500u64).prop_map(|(choice, root, ext, idx)| Prim::Index { choice, root, ext, idx }),
        3 => (opt_bound(), any::<bool>(), pick_len(), any::<u8>()).prop_map(|((lb, ub), ext, n, fill)| Prim::Octets { lb, ub, ext, len: (n as usize).min(40000), fill }),
        3 => (opt_bound(), any::<bool>(), pick_len(), any::<u8>(), 0..17usize, 0..3usize).prop_map(|((lb, ub), ext, n, fill, off, src_extra)| Prim::Bits { lb, ub, ext, off, len: (n as usize).min(40000), fill, src_extra }),
    ]
}

fn random(report: &Report, shards: u64, cases: u32) {
    report.ctx.my_shards(shards).into_par_iter().for_each(|shard| {
        if report.too_many_violations() {
            return;
        }
        let mut runner = report.ctx.runner("random", shard, cases);
        let mut local = Local::default();
        let failed = std::cell::Cell::new(false);
        let cell = std::cell::RefCell::new(&mut local);
        let result = runner.run(&prim_strategy(), |p| {
            if !failed.get() {
                let mut l = cell.borrow_mut();
                l.eval();
                if nontrivial(&p) {
                    l.nontrivial(hash_of(&p));
                }
                l.class(&class_of(&p));
                l.sample(p.to_json());
            }
            check_prim(&p).map_err(|(key, msg)| {
                failed.set(true);
                TestCaseError::fail(format!("{key}\u{1}{msg}"))
            })
        });
        if let Err(proptest::test_runner::TestError::Fail(reason, p)) = result {
            let r = reason.message().to_string();
            let (key, msg) = r.split_once('\u{1}').unwrap_or(("unknown", &r));
            report.fail(key, msg, json!({"prim": p.to_json(), "shrunk": true}));
        }
        report.merge_local(&mut local);
    });
}

const RULE: &str = "one PackedWrite call + the matching PackedRead call (on Bits and on BitBuffer, once followed by a sentinel value and once on a source that ends exactly with the primitive) per case, compared with the X.691 reference primitives. Enumerated: all constrained whole numbers with lb in [-40,40], ub-lb <= 300, v in [lb-2, ub+2]; boundary families (all ordered pairs of {0, +-1, +-2^k, +-2^k+-1, 127/128, 255/256, 16383/16384, 65535/65536, i64 extremes} as bounds with values around them; semi-constrained/unconstrained/normally-small over the families; length determinants, octet strings and bit strings for a table of size constraints x lengths in every fragment-count class up to 13 fragments / 200000 units; indices for 1..300 root items). Generated: random primitives (proptest). Non-trivial: range > 1, length > 0, or any whole-number primitive; distinct = hash of (primitive, arguments).";

pub fn run(ctx: Ctx) -> i32 {
    let report = Report::new(ctx.clone(), RULE);
    report.assumption("trusted base: vcore::refper (reference primitives written from X.691, unit-tested against hand-derived vectors)");
    report.assumption("write_normally_small_length(v) follows asn1rs's convention (caller passes count-1): bit-exactness asserted for v <= 63 only, round trip for all v");
    report.assumption("write_non_negative_binary_integer / 2s-complement helpers are exercised only through their callers (no documented contract of their own)");
    // a raw libFuzzer input (timeout / out-of-memory artifacts have no decoded case)
    if let Some(path) = &ctx.replay {
        let j = read_replay(path);
        if let Some(h) = j["case"]["fuzz_input"].as_str() {
            report.eval(1);
            match fuzz_one(&unhex(h)) {
                None => println!("replay: case passes"),
                Some((key, msg, case)) => {
                    report.fail(&key, &msg, case);
                }
            }
            return report.finish();
        }
    }
    if let Some(path) = &ctx.replay {
        let j = read_replay(path);
        let p = Prim::from_json(&j["case"]["prim"]);
        report.eval(1);
        match check_prim(&p) {
            Ok(()) => println!("replay: case passes"),
            Err((key, msg)) => {
                report.fail(&key, &msg, j["case"].clone());
            }
        }
        return report.finish();
    }
    let tier = ctx.tier;
    let bad = run_in_workers(&report, 16, std::time::Duration::from_secs(tier.pick(900, 7200)), &|report: &Report| {
        exhaustive_constrained(report);
        let fam = family_cases(tier);
        let total = fam.len() as u64;
        // contiguous blocks would put all big strings into one worker: interleave
        let nshards = 256u64;
        report.ctx.my_shards(nshards).into_par_iter().for_each(|sh| {
            let mut local = Local::default();
            let mut i = sh;
            while i < total {
                run_one(report, &mut local, &fam[i as usize], i % 5000 == 0);
                i += nshards;
            }
            report.merge_local(&mut local);
        });
        random(report, 64, tier.pick(2_000, 60_000));
    });
    dead_workers_are_infra(&report, &bad);
    report.exhaustive("constrained whole numbers: lb in [-40,40] x (ub-lb) in [0,300] x v in [lb-2,ub+2]");
    report.finish()
}


/// fuzz entry (engine/fuzz perprims)
pub fn fuzz_one(data: &[u8]) -> Option<(String, String, J)> {
    let p = from_fuzz_bytes(&prim_strategy(), data)?;
    check_prim(&p).err().map(|(k, m)| (k, m, json!({"prim": p.to_json()})))
}
