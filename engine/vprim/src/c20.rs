//! C20 — DER primitives round trip: identifier, length, BOOLEAN, INTEGER, ENUMERATED.
//!
//! "every length value, tag, boolean, 64-bit integer and enumerated index written by the DER
//!  writer is read back unchanged by the DER reader, consuming exactly the bytes written; booleans
//!  accept any non-zero octet as true."

use asn1rs::descriptor::{common, enumerated, numbers, Boolean, Enumerated, Integer, ReadableType, WritableType};
use asn1rs::model::asn::Tag;
use asn1rs::prelude::basic::{BasicRead, BasicWrite, DER};
use proptest::prelude::*;
use serde_json::{json, Value as J};
use vcore::harness::*;

#[derive(Clone, Debug, PartialEq, Eq, Hash)]
pub enum Item {
    Length(u64),
    /// class 0..4, number
    Tag(u8, usize),
    Bool(bool),
    /// raw content octet of a boolean, read side only
    BoolOctet(u8),
    I64(i64),
    U64(u64),
    /// through BasicWriter/BasicReader with Integer<T>: (type index 0..8 = i8,i16,i32,i64,u8,u16,u32,u64; value as i128)
    Num(u8, i128),
    NumBool(bool),
    /// Enumerated with `count` items, index
    Enum(u64, u64),
    /// Integer<i64> / Integer<u8> / Boolean / Enumerated (3 items) whose constraint carries a tag of
    /// class 0..4 and number in {0, 7, 30}: (class, number, kind 0..4, value)
    Tagged(u8, usize, u8, i128),
}

impl Item {
    fn to_json(&self) -> J {
        match self {
            Item::Length(l) => json!({"t": "length", "v": l.to_string()}),
            Item::Tag(c, n) => json!({"t": "tag", "class": c, "number": n}),
            Item::Tagged(c, n, k, v) => json!({"t": "tagged", "class": c, "number": n, "kind": k, "v": v.to_string()}),
            Item::Bool(b) => json!({"t": "bool", "v": b}),
            Item::BoolOctet(o) => json!({"t": "bool_octet", "v": o}),
            Item::I64(v) => json!({"t": "i64", "v": v.to_string()}),
            Item::U64(v) => json!({"t": "u64", "v": v.to_string()}),
            Item::Num(t, v) => json!({"t": "num", "ty": t, "v": v.to_string()}),
            Item::NumBool(b) => json!({"t": "num_bool", "v": b}),
            Item::Enum(c, i) => json!({"t": "enum", "count": c, "index": i}),
        }
    }
    fn from_json(j: &J) -> Item {
        let s = |k: &str| j[k].as_str().unwrap().to_string();
        match j["t"].as_str().unwrap() {
            "length" => Item::Length(s("v").parse().unwrap()),
            "tag" => Item::Tag(j["class"].as_u64().unwrap() as u8, j["number"].as_u64().unwrap() as usize),
            "bool" => Item::Bool(j["v"].as_bool().unwrap()),
            "bool_octet" => Item::BoolOctet(j["v"].as_u64().unwrap() as u8),
            "i64" => Item::I64(s("v").parse().unwrap()),
            "u64" => Item::U64(s("v").parse().unwrap()),
            "num" => Item::Num(j["ty"].as_u64().unwrap() as u8, s("v").parse().unwrap()),
            "num_bool" => Item::NumBool(j["v"].as_bool().unwrap()),
            "tagged" => Item::Tagged(j["class"].as_u64().unwrap() as u8, j["number"].as_u64().unwrap() as usize, j["kind"].as_u64().unwrap() as u8, j["v"].as_str().unwrap().parse().unwrap()),
            _ => Item::Enum(j["count"].as_u64().unwrap(), j["index"].as_u64().unwrap()),
        }
    }
    fn name(&self) -> &'static str {
        match self {
            Item::Length(_) => "length",
            Item::Tag(..) => "identifier",
            Item::Bool(_) => "boolean",
            Item::BoolOctet(_) => "boolean-octet",
            Item::I64(_) => "integer_i64",
            Item::U64(_) => "integer_u64",
            Item::Num(..) => "Integer<T>",
            Item::NumBool(_) => "Boolean",
            Item::Enum(..) => "Enumerated",
            Item::Tagged(..) => "tagged",
        }
    }
}

fn tag_of(class: u8, n: usize) -> Tag {
    match class {
        0 => Tag::Universal(n),
        1 => Tag::Application(n),
        2 => Tag::ContextSpecific(n),
        _ => Tag::Private(n),
    }
}

/// constraint carrying the tag (class C, number N) for Integer<T>, Boolean and a 3-item ENUMERATED
#[derive(Debug, Clone, PartialEq)]
struct Tg<const C: u8, const N: usize>(u64);
impl<const C: u8, const N: usize> common::Constraint for Tg<C, N> {
    const TAG: Tag = match C {
        0 => Tag::Universal(N),
        1 => Tag::Application(N),
        2 => Tag::ContextSpecific(N),
        _ => Tag::Private(N),
    };
}
impl<const C: u8, const N: usize, T: numbers::Number> numbers::Constraint<T> for Tg<C, N> {}
impl<const C: u8, const N: usize> asn1rs::descriptor::boolean::Constraint for Tg<C, N> {}
impl<const C: u8, const N: usize> enumerated::Constraint for Tg<C, N> {
    const NAME: &'static str = "Tg";
    const VARIANT_COUNT: u64 = 3;
    const STD_VARIANT_COUNT: u64 = 3;
    fn to_choice_index(&self) -> u64 {
        self.0
    }
    fn from_choice_index(index: u64) -> Option<Self> {
        if index < 3 {
            Some(Tg(index))
        } else {
            None
        }
    }
}

/// write (W = true) or read-and-compare one tagged item
fn tagged_item<const C: u8, const N: usize, R: std::io::Read>(buf: Option<&mut Vec<u8>>, slice: Option<&mut R>, kind: u8, v: i128) -> Result<(), String> {
    use asn1rs::descriptor::Boolean;
    match (buf, slice) {
        (Some(buf), _) => {
            let mut w = DER::writer(&mut *buf);
            match kind {
                0 => Integer::<i64, Tg<C, N>>::write_value(&mut w, &(v as i64)).map_err(|e| e.to_string()),
                1 => Integer::<u8, Tg<C, N>>::write_value(&mut w, &(v as u8)).map_err(|e| e.to_string()),
                2 => Boolean::<Tg<C, N>>::write_value(&mut w, &(v != 0)).map_err(|e| e.to_string()),
                _ => Enumerated::<Tg<C, N>>::write_value(&mut w, &Tg::<C, N>(v as u64)).map_err(|e| e.to_string()),
            }
        }
        (None, Some(slice)) => {
            let mut r = DER::reader(&mut *slice);
            let got: i128 = match kind {
                0 => Integer::<i64, Tg<C, N>>::read_value(&mut r).map_err(|e| format!("read error: {e}"))? as i128,
                1 => Integer::<u8, Tg<C, N>>::read_value(&mut r).map_err(|e| format!("read error: {e}"))? as i128,
                2 => Boolean::<Tg<C, N>>::read_value(&mut r).map_err(|e| format!("read error: {e}"))? as i128,
                _ => Enumerated::<Tg<C, N>>::read_value(&mut r).map_err(|e| format!("read error: {e}"))?.0 as i128,
            };
            if got != v {
                return Err(format!("read {got} but wrote {v}"));
            }
            Ok(())
        }
        _ => Ok(()),
    }
}

fn tagged_dispatch<R: std::io::Read>(class: u8, number: usize, buf: Option<&mut Vec<u8>>, slice: Option<&mut R>, kind: u8, v: i128) -> Result<(), String> {
    macro_rules! go {
        ($c:literal, $n:literal) => {
            tagged_item::<$c, $n, R>(buf, slice, kind, v)
        };
    }
    match (class, number) {
        (0, 0) => go!(0, 0),
        (0, 7) => go!(0, 7),
        (0, _) => go!(0, 30),
        (1, 0) => go!(1, 0),
        (1, 7) => go!(1, 7),
        (1, _) => go!(1, 30),
        (2, 0) => go!(2, 0),
        (2, 7) => go!(2, 7),
        (2, _) => go!(2, 30),
        (_, 0) => go!(3, 0),
        (_, 7) => go!(3, 7),
        (_, _) => go!(3, 30),
    }
}

/// enumerated descriptor type with a run-time item count
#[derive(Debug, Clone, PartialEq)]
struct En<const N: u64>(u64);
impl<const N: u64> common::Constraint for En<N> {
    const TAG: Tag = Tag::DEFAULT_ENUMERATED;
}
impl<const N: u64> enumerated::Constraint for En<N> {
    const NAME: &'static str = "En";
    const VARIANT_COUNT: u64 = N;
    // an even number of items: the second half are extension items behind the marker
    const STD_VARIANT_COUNT: u64 = if N % 2 == 0 { N / 2 } else { N };
    const EXTENSIBLE: bool = N % 2 == 0;
    fn to_choice_index(&self) -> u64 {
        self.0
    }
    fn from_choice_index(index: u64) -> Option<Self> {
        if index < N {
            Some(En(index))
        } else {
            None
        }
    }
}

const ENUM_COUNTS: [u64; 8] = [1, 2, 3, 127, 128, 255, 256, 300];

type Fail = (String, String);

fn write_item(buf: &mut Vec<u8>, it: &Item) -> Result<(), String> {
    write_item_to(buf, it)
}

/// writes the item into any `std::io::Write` (the blanket impls of asn1rs cover every such sink)
fn write_item_to<W: std::io::Write>(buf: &mut W, it: &Item) -> Result<(), String> {
    macro_rules! num {
        ($t:ty, $v:expr) => {{
            let mut w = DER::writer(&mut *buf);
            Integer::<$t, numbers::NoConstraint>::write_value(&mut w, &(*$v as $t)).map_err(|e| e.to_string())
        }};
    }
    macro_rules! en {
        ($n:literal, $i:expr) => {{
            let mut w = DER::writer(&mut *buf);
            Enumerated::<En<$n>>::write_value(&mut w, &En::<$n>(*$i)).map_err(|e| e.to_string())
        }};
    }
    match it {
        Item::Length(l) => buf.write_length(*l).map_err(|e| e.to_string()),
        Item::Tag(c, n) => buf.write_identifier(tag_of(*c, *n)).map_err(|e| e.to_string()),
        Item::Tagged(c, n, k, v) => {
            let mut tmp: Vec<u8> = Vec::new();
            tagged_dispatch::<&[u8]>(*c, *n, Some(&mut tmp), None, *k, *v)?;
            buf.write_all(&tmp).map_err(|e| e.to_string())
        }
        Item::Bool(b) => buf.write_boolean(*b).map_err(|e| e.to_string()),
        Item::BoolOctet(o) => buf.write_all(&[*o]).map_err(|e| e.to_string()),
        Item::I64(v) => buf.write_integer_i64(*v).map_err(|e| e.to_string()),
        Item::U64(v) => buf.write_integer_u64(*v).map_err(|e| e.to_string()),
        Item::Num(t, v) => match t {
            0 => num!(i8, v),
            1 => num!(i16, v),
            2 => num!(i32, v),
            3 => num!(i64, v),
            4 => num!(u8, v),
            5 => num!(u16, v),
            6 => num!(u32, v),
            _ => num!(u64, v),
        },
        Item::NumBool(b) => {
            let mut w = DER::writer(&mut *buf);
            <Boolean>::write_value(&mut w, b).map_err(|e| e.to_string())
        }
        Item::Enum(c, i) => match c {
            1 => en!(1, i),
            2 => en!(2, i),
            3 => en!(3, i),
            127 => en!(127, i),
            128 => en!(128, i),
            255 => en!(255, i),
            256 => en!(256, i),
            _ => en!(300, i),
        },
    }
}

/// reads the item back from `slice` (advancing it); `written` = number of bytes the write produced
fn read_item<R: std::io::Read>(slice: &mut R, it: &Item, written: usize) -> Result<(), String> {
    macro_rules! num {
        ($t:ty, $v:expr) => {{
            let mut r = DER::reader(&mut *slice);
            let got = Integer::<$t, numbers::NoConstraint>::read_value(&mut r).map_err(|e| format!("read error: {e}"))?;
            if got != (*$v as $t) {
                return Err(format!("read {} but wrote {}", got, (*$v as $t)));
            }
            Ok(())
        }};
    }
    macro_rules! en {
        ($n:literal, $i:expr) => {{
            let mut r = DER::reader(&mut *slice);
            let got = Enumerated::<En<$n>>::read_value(&mut r).map_err(|e| format!("read error: {e}"))?;
            if got.0 != *$i {
                return Err(format!("read index {} but wrote {}", got.0, $i));
            }
            Ok(())
        }};
    }
    match it {
        Item::Length(l) => {
            let got = slice.read_length().map_err(|e| format!("read error: {e}"))?;
            if got != *l {
                return Err(format!("read length {got} but wrote {l}"));
            }
            Ok(())
        }
        Item::Tag(c, n) => {
            let got = slice.read_identifier().map_err(|e| format!("read error: {e}"))?;
            if got != tag_of(*c, *n) {
                return Err(format!("read tag {got:?} but wrote {:?}", tag_of(*c, *n)));
            }
            Ok(())
        }
        Item::Tagged(c, n, k, v) => tagged_dispatch(*c, *n, None, Some(slice), *k, *v),
        Item::Bool(b) => {
            let got = slice.read_boolean().map_err(|e| format!("read error: {e}"))?;
            if got != *b {
                return Err(format!("read {got} but wrote {b}"));
            }
            Ok(())
        }
        Item::BoolOctet(o) => {
            let got = slice.read_boolean().map_err(|e| format!("read error: {e}"))?;
            if got != (*o != 0) {
                return Err(format!("content octet {o:#04x} read as {got}"));
            }
            Ok(())
        }
        Item::I64(v) => {
            let got = slice.read_integer_i64(written as u32).map_err(|e| format!("read error: {e}"))?;
            if got != *v {
                return Err(format!("read {got} but wrote {v} ({written} bytes)"));
            }
            Ok(())
        }
        Item::U64(v) => {
            let got = slice.read_integer_u64(written as u32).map_err(|e| format!("read error: {e}"))?;
            if got != *v {
                return Err(format!("read {got} but wrote {v} ({written} bytes)"));
            }
            Ok(())
        }
        Item::Num(t, v) => match t {
            0 => num!(i8, v),
            1 => num!(i16, v),
            2 => num!(i32, v),
            3 => num!(i64, v),
            4 => num!(u8, v),
            5 => num!(u16, v),
            6 => num!(u32, v),
            _ => num!(u64, v),
        },
        Item::NumBool(b) => {
            let mut r = DER::reader(&mut *slice);
            let got = <Boolean>::read_value(&mut r).map_err(|e| format!("read error: {e}"))?;
            if got != *b {
                return Err(format!("read {got} but wrote {b}"));
            }
            Ok(())
        }
        Item::Enum(c, i) => match c {
            1 => en!(1, i),
            2 => en!(2, i),
            3 => en!(3, i),
            127 => en!(127, i),
            128 => en!(128, i),
            255 => en!(255, i),
            256 => en!(256, i),
            _ => en!(300, i),
        },
    }
}

/// Writes all items into one buffer, reads them back in order from one slice.
pub fn check_items(items: &[Item]) -> Result<(), Fail> {
    let mut buf: Vec<u8> = Vec::new();
    let mut sizes = Vec::new();
    for (k, it) in items.iter().enumerate() {
        let before = buf.len();
        match catch(|| write_item(&mut buf, it)) {
            Err(p) => return Err((format!("{}:write-panic", it.name()), format!("item {k}: write panicked: {p}"))),
            Ok(Err(e)) => return Err((format!("{}:write-error", it.name()), format!("item {k}: write into a Vec failed: {e}"))),
            Ok(Ok(())) => {}
        }
        sizes.push(buf.len() - before);
    }
    let mut slice: &[u8] = &buf[..];
    for (k, it) in items.iter().enumerate() {
        let before = slice.len();
        match catch(|| read_item(&mut slice, it, sizes[k])) {
            Err(p) => return Err((format!("{}:read-panic", it.name()), format!("item {k}: read panicked: {p}"))),
            Ok(Err(e)) => return Err((format!("{}:value", it.name()), format!("item {k} ({:?}): {e}; bytes {}", it, hex(&buf)))),
            Ok(Ok(())) => {}
        }
        let consumed = before - slice.len();
        if consumed != sizes[k] {
            return Err((
                format!("{}:consumed", it.name()),
                format!("item {k} ({:?}): write produced {} bytes, read consumed {consumed}; bytes {}", it, sizes[k], hex(&buf)),
            ));
        }
    }
    if !slice.is_empty() {
        return Err(("remaining".into(), format!("{} bytes remain after reading everything back", slice.len())));
    }
    // the same bytes through readers that deliver short reads (as a socket or a chained reader
    // does): one octet per call, three octets per call
    for chunk in [1usize, 3] {
        let mut r = Chunked { data: &buf[..], pos: 0, chunk };
        for (k, it) in items.iter().enumerate() {
            let before = r.pos;
            match catch(|| read_item(&mut r, it, sizes[k])) {
                Err(p) => return Err((format!("{}:read-panic", it.name()), format!("item {k}: read through a reader delivering {chunk} octet(s) per call panicked: {p}"))),
                Ok(Err(e)) => return Err((format!("{}:short-reads", it.name()), format!("item {k} ({:?}) through a reader delivering {chunk} octet(s) per call: {e}; bytes {}", it, hex(&buf)))),
                Ok(Ok(())) => {}
            }
            if r.pos - before != sizes[k] {
                return Err((format!("{}:consumed", it.name()), format!("item {k} ({:?}) through a reader delivering {chunk} octet(s) per call: write produced {} bytes, read consumed {}", it, sizes[k], r.pos - before)));
            }
        }
    }
    // the same items through writers that accept short writes (as a socket or a pipe does: `write`
    // may take fewer octets than offered): the octets that arrive must be the ones a Vec receives
    for chunk in [1usize, 3] {
        let mut w = ChunkedWriter { out: Vec::with_capacity(buf.len()), chunk };
        for (k, it) in items.iter().enumerate() {
            let before = w.out.len();
            match catch(|| write_item_to(&mut w, it)) {
                Err(p) => return Err((format!("{}:write-panic", it.name()), format!("item {k}: write into a writer accepting {chunk} octet(s) per call panicked: {p}"))),
                Ok(Err(e)) => return Err((format!("{}:short-writes", it.name()), format!("item {k} ({:?}): write into a writer accepting {chunk} octet(s) per call failed: {e}", it))),
                Ok(Ok(())) => {}
            }
            let start: usize = sizes[..k].iter().sum();
            if w.out[before..] != buf[start..start + sizes[k]] {
                return Err((
                    format!("{}:short-writes", it.name()),
                    format!("item {k} ({:?}): a writer accepting {chunk} octet(s) per call received {} but a Vec received {}", it, hex(&w.out[before..]), hex(&buf[start..start + sizes[k]])),
                ));
            }
        }
    }
    Ok(())
}

/// a writer that never accepts more than `chunk` octets per call
struct ChunkedWriter {
    out: Vec<u8>,
    chunk: usize,
}
impl std::io::Write for ChunkedWriter {
    fn write(&mut self, data: &[u8]) -> std::io::Result<usize> {
        let n = data.len().min(self.chunk);
        self.out.extend_from_slice(&data[..n]);
        Ok(n)
    }
    fn flush(&mut self) -> std::io::Result<()> {
        Ok(())
    }
}

/// a reader that never delivers more than `chunk` octets per call
struct Chunked<'a> {
    data: &'a [u8],
    pos: usize,
    chunk: usize,
}
impl std::io::Read for Chunked<'_> {
    fn read(&mut self, out: &mut [u8]) -> std::io::Result<usize> {
        let n = out.len().min(self.chunk).min(self.data.len() - self.pos);
        out[..n].copy_from_slice(&self.data[self.pos..self.pos + n]);
        self.pos += n;
        Ok(n)
    }
}

fn i64_family() -> Vec<i64> {
    let mut v = vec![0i64, 1, -1, i64::MIN, i64::MAX, i64::MIN + 1, i64::MAX - 1];
    for k in 0..=63u32 {
        let p = 1i128 << k;
        for d in [-2i128, -1, 0, 1, 2] {
            for s in [1i128, -1] {
                let x = s * p + d;
                if x >= i64::MIN as i128 && x <= i64::MAX as i128 {
                    v.push(x as i64);
                }
            }
        }
    }
    v.extend(-300..=300);
    v.sort();
    v.dedup();
    v
}

fn u64_family() -> Vec<u64> {
    let mut v = vec![0u64, 1, u64::MAX, u64::MAX - 1, u64::MAX - 2];
    for k in 0..=63u32 {
        let p = 1u128 << k;
        for d in [-2i128, -1, 0, 1, 2] {
            let x = p as i128 + d;
            if x >= 0 && x <= u64::MAX as i128 {
                v.push(x as u64);
            }
        }
    }
    for k in 1..=9u32 {
        // around 2^(7k)
        let p = 1u128 << (7 * k);
        for d in [-2i128, -1, 0, 1, 2] {
            let x = p as i128 + d;
            if x >= 0 && x <= u64::MAX as i128 {
                v.push(x as u64);
            }
        }
    }
    v.extend(0..=300);
    v.sort();
    v.dedup();
    v
}

fn ranges_of(t: u8) -> (i128, i128) {
    match t {
        0 => (i8::MIN as i128, i8::MAX as i128),
        1 => (i16::MIN as i128, i16::MAX as i128),
        2 => (i32::MIN as i128, i32::MAX as i128),
        3 => (i64::MIN as i128, i64::MAX as i128),
        4 => (0, u8::MAX as i128),
        5 => (0, u16::MAX as i128),
        6 => (0, u32::MAX as i128),
        _ => (0, u64::MAX as i128),
    }
}

fn enumerated_items() -> Vec<Item> {
    let mut items = Vec::new();
    for l in u64_family() {
        items.push(Item::Length(l));
    }
    for c in 0..4u8 {
        for n in 0..=30usize {
            items.push(Item::Tag(c, n));
        }
    }
    items.push(Item::Bool(true));
    items.push(Item::Bool(false));
    items.push(Item::NumBool(true));
    items.push(Item::NumBool(false));
    for o in 0..=255u8 {
        items.push(Item::BoolOctet(o));
    }
    for v in i64_family() {
        items.push(Item::I64(v));
    }
    for v in u64_family() {
        items.push(Item::U64(v));
    }
    for t in 0..8u8 {
        let (lo, hi) = ranges_of(t);
        let mut vals: Vec<i128> = i64_family().into_iter().map(|v| v as i128).chain(u64_family().into_iter().map(|v| v as i128)).filter(|v| *v >= lo && *v <= hi).collect();
        vals.push(lo);
        vals.push(hi);
        vals.sort();
        vals.dedup();
        for v in vals {
            items.push(Item::Num(t, v));
        }
    }
    for c in ENUM_COUNTS {
        for i in 0..c {
            items.push(Item::Enum(c, i));
        }
    }
    for class in 0..4u8 {
        for number in [0usize, 7, 30] {
            for v in [0i128, 1, -1, 127, 128, 255, 256, i64::MIN as i128, i64::MAX as i128] {
                items.push(Item::Tagged(class, number, 0, v));
            }
            for v in [0i128, 1, 127, 128, 255] {
                items.push(Item::Tagged(class, number, 1, v));
            }
            for v in [0i128, 1] {
                items.push(Item::Tagged(class, number, 2, v));
            }
            for v in [0i128, 1, 2] {
                items.push(Item::Tagged(class, number, 3, v));
            }
        }
    }
    items
}

fn item_strategy() -> impl Strategy<Value = Item> {
    let i64s = i64_family();
    let u64s = u64_family();
    let u64s2 = u64s.clone();
    let pick_i64 = prop_oneof![any::<i64>(), proptest::sample::select(i64s)];
    let pick_u64 = prop_oneof![any::<u64>(), proptest::sample::select(u64s)];
    let pick_len = prop_oneof![any::<u64>(), proptest::sample::select(u64s2), 0..70000u64];
    prop_oneof![
        pick_len.prop_map(Item::Length),
        (0..4u8, 0..=30usize).prop_map(|(c, n)| Item::Tag(c, n)),
        any::<bool>().prop_map(Item::Bool),
        any::<u8>().prop_map(Item::BoolOctet),
        pick_i64.clone().prop_map(Item::I64),
        pick_u64.clone().prop_map(Item::U64),
        (0..8u8, pick_i64, pick_u64).prop_map(|(t, i, u)| {
            let (lo, hi) = ranges_of(t);
            // clamp monotonically into the type's range
            let v = if t >= 4 { u as i128 } else { i as i128 };
            let v = if v < lo || v > hi { lo + (v - lo).rem_euclid(hi - lo + 1) } else { v };
            Item::Num(t, v)
        }),
        any::<bool>().prop_map(Item::NumBool),
        (proptest::sample::select(ENUM_COUNTS.to_vec()), any::<u16>()).prop_map(|(c, i)| Item::Enum(c, ((i as u64) * c) >> 16)),
        (0..4u8, proptest::sample::select(vec![0usize, 7, 30]), 0..4u8, any::<i64>()).prop_map(|(c, n, k, v)| {
            let v = match k {
                0 => v as i128,
                1 => (v as u8) as i128,
                2 => (v & 1) as i128,
                _ => (v as u64 % 3) as i128,
            };
            Item::Tagged(c, n, k, v)
        }),
    ]
}

const RULE: &str = "enumerated: every length in {0..300, 2^k +-2, 2^(7k) +-2, u64::MAX-2..u64::MAX}, every tag class x number 0..30, both booleans, every boolean content octet 0..255, i64/u64 boundary families through write_integer_*/read_integer_* and through BasicWriter/BasicReader with Integer<i8..u64>, Boolean, Enumerated with 1..300 items, non-extensible and extensible with half of the items behind the marker (every index), and Integer<i64> / Integer<u8> / Boolean / Enumerated whose constraint carries a tag of each of the four classes with number 0 / 7 / 30 - each alone in a buffer; generated (proptest): sequences of 2..8 such items in one buffer read back from one slice and through readers that deliver 1 / 3 octets per call. Non-trivial: every item / sequence (distinct = hash of the item sequence).";

pub fn run(ctx: Ctx) -> i32 {
    let report = Report::new(ctx.clone(), RULE);
    report.assumption("integers are read back with the byte count the writer produced (the primitives carry no length of their own); tags are limited to numbers < 31 as the property states");
    if let Some(path) = &ctx.replay {
        let j = read_replay(path);
        let items: Vec<Item> = j["case"]["items"].as_array().unwrap().iter().map(Item::from_json).collect();
        report.eval(1);
        match check_items(&items) {
            Ok(()) => println!("replay: case passes"),
            Err((key, msg)) => {
                report.fail(&key, &msg, j["case"].clone());
            }
        }
        return report.finish();
    }
    // enumerated singles
    let mut local = Local::default();
    let all = enumerated_items();
    for it in &all {
        local.eval();
        local.nontrivial(hash_of(&vec![it.clone()]));
        local.class(it.name());
        if let Err((key, msg)) = check_items(std::slice::from_ref(it)) {
            report.fail(&key, &msg, json!({"items": [it.to_json()]}));
        }
    }
    report.merge_local(&mut local);
    report.exhaustive("all listed lengths, tags (4 classes x 0..30), boolean octets 0..255, integer boundary families, enumerated indices for 1,2,3,127,128,255,256,300 items");
    // sequences
    let shards = 16u64;
    let cases = ctx.tier.pick(150_000, 1_000_000);
    use rayon::prelude::*;
    (0..shards).into_par_iter().for_each(|shard| {
        let mut runner = report.ctx.runner("seq", shard, cases);
        let mut local = Local::default();
        let failed = std::cell::Cell::new(false);
        let cell = std::cell::RefCell::new(&mut local);
        let strat = proptest::collection::vec(item_strategy(), 2..8usize);
        let result = runner.run(&strat, |items| {
            if !failed.get() {
                let mut l = cell.borrow_mut();
                l.eval();
                l.nontrivial(hash_of(&items));
                l.class("sequence");
                l.sample(json!({"items": items.iter().map(Item::to_json).collect::<Vec<_>>()}));
            }
            check_items(&items).map_err(|(key, msg)| {
                failed.set(true);
                TestCaseError::fail(format!("{key}\u{1}{msg}"))
            })
        });
        if let Err(proptest::test_runner::TestError::Fail(reason, items)) = result {
            let r = reason.message().to_string();
            let (key, msg) = r.split_once('\u{1}').unwrap_or(("unknown", &r));
            report.fail(key, msg, json!({"items": items.iter().map(Item::to_json).collect::<Vec<_>>(), "shrunk": true}));
        }
        report.merge_local(&mut local);
    });
    report.finish()
}
