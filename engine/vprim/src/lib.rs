//! vprim as a library: the check modules are shared with the fuzz targets (engine/fuzz).
pub mod c10;
pub mod c11;
pub mod c20;
pub mod util;
