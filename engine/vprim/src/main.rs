//! vprim: checks that need only the asn1rs runtime primitives (no compiled schemas):
//! C10 (PER primitives), C11 (bit buffers), C20 (DER primitives).
use vprim::*;

fn main() {
    vcore::harness::install_quiet_panic_hook();
    let args: Vec<String> = std::env::args().skip(1).collect();
    let ctx = vcore::harness::Ctx::from_args(&args);
    let code = match ctx.prop.as_str() {
        "C10" => c10::run(ctx),
        "C11" => c11::run(ctx),
        "C20" => c20::run(ctx),
        other => {
            eprintln!("vprim does not serve {other}");
            2
        }
    };
    std::process::exit(code);
}
