//! C11 — bit-level buffer operations equal a naive bit-vector model.
//!
//! Statement clauses checked (quoted from the property):
//!  (a) "Writing n bits taken from any bit offset of a source into any bit position of a
//!      destination changes exactly those n destination bits to the source bits and nothing else"
//!  (b) "advances the cursor by n"
//!  (c) "fails with an error (not a panic) when source or destination is too short"
//!  (d) "reading is the mirror image" (and never succeeds past the declared length of `Bits` /
//!      the write position of `BitBuffer`)
//!  (e) "A growable bit buffer is always exactly ceil(bit_len/8) bytes long with zero padding bits"

use asn1rs::protocol::per::unaligned::buffer::{BitBuffer, Bits};
use asn1rs::protocol::per::unaligned::{BitRead, BitWrite, ScopedBitRead};
use proptest::prelude::*;
use rayon::prelude::*;
use serde_json::{json, Value as J};
use vcore::bitmodel::*;
use vcore::harness::*;

// ------------------------------------------------------------------------------------------
// single slice operations

#[derive(Clone, Copy, Debug, PartialEq, Eq, Hash)]
pub enum Kind {
    /// (&mut [u8], &mut usize) as BitWrite
    SliceWrite,
    /// (&[u8], &mut usize) as BitRead
    SliceRead,
    /// Bits (declared length may be shorter than the slice) as BitRead
    BitsRead,
}

#[derive(Clone, Copy, Debug, PartialEq, Eq, Hash)]
pub enum Form {
    Bit,
    /// whole other buffer
    All,
    /// other buffer from offset to its end (derived length; precondition off <= 8*len)
    Offset,
    Len,
    OffsetLen,
}

/// One copy operation. "a" is the buffer with the cursor (self), "b" the argument buffer.
#[derive(Clone, Debug, PartialEq, Eq, Hash)]
pub struct Case {
    pub kind: Kind,
    pub form: Form,
    pub a: Vec<u8>,
    /// declared bit length of `a` (only meaningful for BitsRead; otherwise 8*a.len())
    pub a_decl: usize,
    pub pos: usize,
    pub b: Vec<u8>,
    pub off: usize,
    pub n: usize,
    pub bit: bool,
}

impl Case {
    fn to_json(&self) -> J {
        json!({
            "kind": format!("{:?}", self.kind), "form": format!("{:?}", self.form),
            "a": hex(&self.a), "a_decl": self.a_decl, "pos": self.pos,
            "b": hex(&self.b), "off": self.off, "n": self.n, "bit": self.bit,
        })
    }
    fn from_json(j: &J) -> Case {
        let kind = match j["kind"].as_str().unwrap() {
            "SliceWrite" => Kind::SliceWrite,
            "SliceRead" => Kind::SliceRead,
            _ => Kind::BitsRead,
        };
        let form = match j["form"].as_str().unwrap() {
            "Bit" => Form::Bit,
            "All" => Form::All,
            "Offset" => Form::Offset,
            "Len" => Form::Len,
            _ => Form::OffsetLen,
        };
        Case {
            kind,
            form,
            a: unhex(j["a"].as_str().unwrap()),
            a_decl: j["a_decl"].as_u64().unwrap() as usize,
            pos: j["pos"].as_u64().unwrap() as usize,
            b: unhex(j["b"].as_str().unwrap()),
            off: j["off"].as_u64().unwrap() as usize,
            n: j["n"].as_u64().unwrap() as usize,
            bit: j["bit"].as_bool().unwrap(),
        }
    }
    /// effective (off, n) of the argument buffer
    fn eff(&self) -> (usize, usize) {
        match self.form {
            Form::Bit => (0, 1),
            Form::All => (0, self.b.len() * 8),
            Form::Offset => (self.off, self.b.len() * 8 - self.off),
            Form::Len => (0, self.n),
            Form::OffsetLen => (self.off, self.n),
        }
    }
}

/// Failure: (root-cause key, message)
type Fail = (String, String);

fn opname(c: &Case) -> String {
    format!("{:?}.{:?}", c.kind, c.form)
}

pub fn check_case(c: &Case) -> Result<(), Fail> {
    match c.kind {
        Kind::SliceWrite => check_slice_write(c),
        Kind::SliceRead | Kind::BitsRead => check_read(c),
    }
}

fn check_slice_write(c: &Case) -> Result<(), Fail> {
    let (off, n) = c.eff();
    let mut dst = c.a.clone();
    let mut pos = c.pos;
    let src = &c.b;
    let res = catch(|| {
        let mut w = (&mut dst[..], &mut pos);
        match c.form {
            Form::Bit => w.write_bit(c.bit),
            Form::All => w.write_bits(src),
            Form::Offset => w.write_bits_with_offset(src, c.off),
            Form::Len => w.write_bits_with_len(src, c.n),
            Form::OffsetLen => w.write_bits_with_offset_len(src, c.off, c.n),
        }
    });
    let dst_short = c.a.len() * 8 < c.pos + n;
    let src_short = c.form != Form::Bit && src.len() * 8 < off + n;
    let op = opname(c);
    let res = match res {
        Err(p) => return Err((format!("{op}:panic"), format!("panicked: {p}"))),
        Ok(r) => r,
    };
    if dst_short || src_short {
        // (c) too short => error
        if res.is_ok() {
            return Err((
                format!("{op}:ok-although-too-short"),
                format!("returned Ok although dst_short={dst_short} src_short={src_short}"),
            ));
        }
        return Ok(());
    }
    if let Err(e) = res {
        return Err((
            format!("{op}:err-although-fits"),
            format!("returned Err({}) although source and destination are long enough", crate::util::kind_name(e.kind())),
        ));
    }
    // (b)
    if pos != c.pos + n {
        return Err((
            format!("{op}:cursor"),
            format!("cursor {} -> {}, expected {}", c.pos, pos, c.pos + n),
        ));
    }
    // (a)
    let mut want = c.a.clone();
    for i in 0..n {
        let b = if c.form == Form::Bit { c.bit } else { bit_at(src, off + i) };
        set_bit(&mut want, c.pos + i, b);
    }
    if dst != want {
        let first = (0..dst.len() * 8).find(|i| bit_at(&dst, *i) != bit_at(&want, *i)).unwrap();
        let inside = first >= c.pos && first < c.pos + n;
        return Err((
            format!("{op}:{}", if inside { "copied-bits-wrong" } else { "bits-outside-range-changed" }),
            format!("destination differs from model at bit {first} (range {}..{}): got {} want {}", c.pos, c.pos + n, hex(&dst), hex(&want)),
        ));
    }
    Ok(())
}

fn check_read(c: &Case) -> Result<(), Fail> {
    let (off, n) = c.eff();
    let mut dst = c.b.clone();
    let op = opname(c);
    let src = &c.a;
    let (res, pos, remaining_after) = match c.kind {
        Kind::SliceRead => {
            let mut pos = c.pos;
            let r = catch(|| {
                let mut r = (&src[..], &mut pos);
                match c.form {
                    Form::Bit => r.read_bit().map(Some),
                    Form::All => r.read_bits(&mut dst).map(|_| None),
                    Form::Offset => r.read_bits_with_offset(&mut dst, c.off).map(|_| None),
                    Form::Len => r.read_bits_with_len(&mut dst, c.n).map(|_| None),
                    Form::OffsetLen => r.read_bits_with_offset_len(&mut dst, c.off, c.n).map(|_| None),
                }
            });
            (r, pos, None)
        }
        _ => {
            let mut bits = Bits::from((&src[..], c.a_decl));
            let set = bits.set_pos(c.pos);
            debug_assert_eq!(set, c.pos);
            let r = catch(|| match c.form {
                Form::Bit => bits.read_bit().map(Some),
                Form::All => bits.read_bits(&mut dst).map(|_| None),
                Form::Offset => bits.read_bits_with_offset(&mut dst, c.off).map(|_| None),
                Form::Len => bits.read_bits_with_len(&mut dst, c.n).map(|_| None),
                Form::OffsetLen => bits.read_bits_with_offset_len(&mut dst, c.off, c.n).map(|_| None),
            });
            let rem = catch(|| bits.remaining());
            (r, bits.pos(), Some(rem))
        }
    };
    let decl = if c.kind == Kind::BitsRead { c.a_decl } else { c.a.len() * 8 };
    let src_short = decl < c.pos + n;
    let dst_short = c.form != Form::Bit && c.b.len() * 8 < off + n;
    let res = match res {
        Err(p) => return Err((format!("{op}:panic"), format!("panicked: {p}"))),
        Ok(r) => r,
    };
    if src_short || dst_short {
        if res.is_ok() {
            return Err((
                format!("{op}:{}", if src_short { "ok-past-declared-length" } else { "ok-although-dst-too-short" }),
                format!("returned Ok although src_short={src_short} (declared {decl} bits, pos {} + n {n}) dst_short={dst_short}", c.pos),
            ));
        }
    } else {
        let bit = match res {
            Err(e) => {
                return Err((
                    format!("{op}:err-although-fits"),
                    format!("returned Err({}) although source and destination are long enough", crate::util::kind_name(e.kind())),
                ))
            }
            Ok(b) => b,
        };
        if pos != c.pos + n {
            return Err((format!("{op}:cursor"), format!("cursor {} -> {}, expected {}", c.pos, pos, c.pos + n)));
        }
        if c.form == Form::Bit {
            if bit != Some(bit_at(src, c.pos)) {
                return Err((format!("{op}:copied-bits-wrong"), "read_bit returned the wrong bit".into()));
            }
        } else {
            let mut want = c.b.clone();
            for i in 0..n {
                set_bit(&mut want, off + i, bit_at(src, c.pos + i));
            }
            if dst != want {
                let first = (0..dst.len() * 8).find(|i| bit_at(&dst, *i) != bit_at(&want, *i)).unwrap();
                let inside = first >= off && first < off + n;
                return Err((
                    format!("{op}:{}", if inside { "copied-bits-wrong" } else { "bits-outside-range-changed" }),
                    format!("destination differs from model at bit {first} (range {off}..{}): got {} want {}", off + n, hex(&dst), hex(&want)),
                ));
            }
        }
    }
    if let Some(Err(p)) = remaining_after {
        return Err((format!("{op}:remaining-panics"), format!("Bits::remaining() panicked after the operation: {p}")));
    }
    Ok(())
}

fn nontrivial(c: &Case) -> bool {
    c.eff().1 > 0
}

fn class_of(c: &Case) -> String {
    let (off, n) = c.eff();
    // (argument offset mod 8, cursor mod 8, n mod 8, bulk path?)
    format!("{}/{}/{}/{}", off % 8, c.pos % 8, n % 8, if n > 16 { "bulk" } else { "bitwise" })
}

// ------------------------------------------------------------------------------------------
// enumeration

fn fills() -> Vec<(u8, u8)> {
    // (fill of the buffer that is written to, fill of the buffer that is read from)
    vec![(0x00, 0xFF), (0xFF, 0x00), (0xA5, 0x5A)]
}

fn patterned(len: usize, fill: u8) -> Vec<u8> {
    // not constant over the buffer, so that a shifted copy is visible: rotate the fill per byte
    (0..len).map(|i| fill.rotate_left((i % 8) as u32) ^ (i as u8).wrapping_mul(0x11)).collect()
}

fn enumerate(report: &Report, max_len: usize) {
    let kinds = [Kind::SliceWrite, Kind::SliceRead, Kind::BitsRead];
    let mut jobs = Vec::new();
    for kind in kinds {
        for a_len in 0..=max_len {
            for b_len in 0..=max_len {
                for fi in 0..fills().len() {
                    let decls: Vec<usize> = if kind == Kind::BitsRead {
                        // every declared length of the last two bytes, plus a shorter one
                        let full = a_len * 8;
                        let mut v: Vec<usize> = (full.saturating_sub(9)..=full).collect();
                        if full > 17 {
                            v.push(full - 17);
                        }
                        v
                    } else {
                        vec![a_len * 8]
                    };
                    for a_decl in decls {
                        jobs.push((kind, a_len, b_len, fi, a_decl));
                    }
                }
            }
        }
    }
    let mine = report.ctx.my_shards(jobs.len() as u64);
    mine.par_iter().for_each(|&j| {
        let (kind, a_len, b_len, fi, a_decl) = jobs[j as usize];
        if report.too_many_violations() {
            return;
        }
        let mut local = Local::default();
        let (fill_w, fill_r) = fills()[fi];
        let (a_fill, b_fill) = if kind == Kind::SliceWrite { (fill_w, fill_r) } else { (fill_r, fill_w) };
        let a = if fi == 2 { patterned(a_len, a_fill) } else { vec![a_fill; a_len] };
        let b = if fi == 2 { patterned(b_len, b_fill) } else { vec![b_fill; b_len] };
        let pos_max = if kind == Kind::BitsRead { a_decl } else { a_len * 8 + 1 };
        for pos in 0..=pos_max {
            // general form
            for off in 0..=b_len * 8 + 1 {
                // every fitting length and the two lengths just beyond (error cases build a
                // backtrace inside asn1rs and are ~100x more expensive than successes)
                let room = a_decl.saturating_sub(pos).min((b_len * 8).saturating_sub(off));
                for n in 0..=room + 2 {
                    let c = Case { kind, form: Form::OffsetLen, a: a.clone(), a_decl, pos, b: b.clone(), off, n, bit: false };
                    run_one(report, &mut local, &c);
                }
                if off <= b_len * 8 {
                    let c = Case { kind, form: Form::Offset, a: a.clone(), a_decl, pos, b: b.clone(), off, n: 0, bit: false };
                    run_one(report, &mut local, &c);
                }
            }
            for n in 0..=a_decl.saturating_sub(pos).min(b_len * 8) + 2 {
                let c = Case { kind, form: Form::Len, a: a.clone(), a_decl, pos, b: b.clone(), off: 0, n, bit: false };
                run_one(report, &mut local, &c);
            }
            let c = Case { kind, form: Form::All, a: a.clone(), a_decl, pos, b: b.clone(), off: 0, n: 0, bit: false };
            run_one(report, &mut local, &c);
            if b_len == 0 {
                for bit in [false, true] {
                    let c = Case { kind, form: Form::Bit, a: a.clone(), a_decl, pos, b: vec![], off: 0, n: 0, bit };
                    run_one(report, &mut local, &c);
                }
            }
        }
        report.merge_local(&mut local);
    });
}

fn run_one(report: &Report, local: &mut Local, c: &Case) {
    local.eval();
    if nontrivial(c) {
        local.nontrivial(hash_of(c));
        local.class(&class_of(c));
    }
    if let Err((key, msg)) = check_case(c) {
        report.fail(&key, &msg, json!({"type": "single", "op": c.to_json()}));
    }
}

// ------------------------------------------------------------------------------------------
// random single operations (proptest, shrinkable)

pub fn case_strategy(max_len: usize) -> impl Strategy<Value = Case> {
    let kind = prop_oneof![Just(Kind::SliceWrite), Just(Kind::SliceRead), Just(Kind::BitsRead)];
    let form = prop_oneof![
        1 => Just(Form::Bit), 1 => Just(Form::All), 2 => Just(Form::Offset), 2 => Just(Form::Len), 6 => Just(Form::OffsetLen)
    ];
    (
        kind,
        form,
        proptest::collection::vec(any::<u8>(), 0..=max_len),
        proptest::collection::vec(any::<u8>(), 0..=max_len),
        any::<u16>(),
        any::<u16>(),
        any::<u16>(),
        any::<u16>(),
        any::<bool>(),
        0..4u8,
    )
        .prop_map(|(kind, form, a, b, p, o, n, d, bit, mode)| {
            // map indices monotonically into [0, max] so that shrinking works
            let scale = |x: u16, max: usize| ((x as usize) * (max + 1)) >> 16;
            let a_bits = a.len() * 8;
            let b_bits = b.len() * 8;
            let a_decl = if kind == Kind::BitsRead { scale(d, a_bits) } else { a_bits };
            let pos = if kind == Kind::BitsRead { scale(p, a_decl) } else { scale(p, a_bits + 2) };
            let off = if form == Form::Offset { scale(o, b_bits) } else { scale(o, b_bits + 2) };
            // mode: 0 = anything up to just beyond; 1.. = fitting lengths (so that most cases succeed)
            let n = if mode == 0 {
                scale(n, a_bits.max(b_bits) + 2)
            } else {
                let room_a = a_decl.saturating_sub(pos);
                let room_b = b_bits.saturating_sub(off);
                scale(n, room_a.min(room_b))
            };
            Case { kind, form, a, a_decl, pos, b, off, n, bit }
        })
}

fn random_singles(report: &Report, shards: u64, cases_per_shard: u32, max_len: usize) {
    report.ctx.my_shards(shards).into_par_iter().for_each(|shard| {
        if report.too_many_violations() {
            return;
        }
        let mut runner = report.ctx.runner("single", shard, cases_per_shard);
        let mut local = Local::default();
        let failed = std::cell::Cell::new(false);
        let local_cell = std::cell::RefCell::new(&mut local);
        let result = runner.run(&case_strategy(max_len), |c| {
            if !failed.get() {
                let mut l = local_cell.borrow_mut();
                l.eval();
                if nontrivial(&c) {
                    l.nontrivial(hash_of(&c));
                    l.class(&class_of(&c));
                    if c.eff().1 > 16 {
                        l.sample(c.to_json());
                    }
                }
            }
            match check_case(&c) {
                Ok(()) => Ok(()),
                Err((key, msg)) => {
                    failed.set(true);
                    Err(TestCaseError::fail(format!("{key}\u{1}{msg}")))
                }
            }
        });
        if let Err(proptest::test_runner::TestError::Fail(reason, c)) = result {
            let r = reason.message().to_string();
            let (key, msg) = r.split_once('\u{1}').unwrap_or(("unknown", &r));
            report.fail(key, msg, json!({"type": "single", "op": c.to_json(), "shrunk": true}));
        }
        report.merge_local(&mut local);
    });
}

// ------------------------------------------------------------------------------------------
// BitBuffer operation histories

#[derive(Clone, Debug, PartialEq, Eq, Hash)]
pub enum Op {
    WriteBit(bool),
    WriteBits(Vec<u8>),
    WriteOffset(Vec<u8>, usize),
    WriteLen(Vec<u8>, usize),
    WriteOffsetLen(Vec<u8>, usize, usize),
    ReadBit,
    /// (destination length in bytes)
    ReadBits(usize),
    ReadOffset(usize, usize),
    ReadLen(usize, usize),
    ReadOffsetLen(usize, usize, usize),
    ResetRead,
    Clear,
    /// rebuild the buffer through from_bits(content, bit_len) / Vec<u8> round trip
    Rebuild,
    /// overwrite already written bits: `with_write_position_at(p, |b| b.write_bit(bit))`, p scaled
    /// into the written bits at execution time
    OverwriteBit(u16, bool),
    /// `with_write_position_at(p, |b| b.write_bits_with_len(src, n))`, p and n scaled so that the
    /// range stays inside the written bits
    OverwriteBits(u16, Vec<u8>, u16),
}

impl Op {
    fn to_json(&self) -> J {
        match self {
            Op::WriteBit(b) => json!({"op": "write_bit", "bit": b}),
            Op::WriteBits(s) => json!({"op": "write_bits", "src": hex(s)}),
            Op::WriteOffset(s, o) => json!({"op": "write_bits_with_offset", "src": hex(s), "off": o}),
            Op::WriteLen(s, n) => json!({"op": "write_bits_with_len", "src": hex(s), "n": n}),
            Op::WriteOffsetLen(s, o, n) => json!({"op": "write_bits_with_offset_len", "src": hex(s), "off": o, "n": n}),
            Op::ReadBit => json!({"op": "read_bit"}),
            Op::ReadBits(d) => json!({"op": "read_bits", "dst_len": d}),
            Op::ReadOffset(d, o) => json!({"op": "read_bits_with_offset", "dst_len": d, "off": o}),
            Op::ReadLen(d, n) => json!({"op": "read_bits_with_len", "dst_len": d, "n": n}),
            Op::ReadOffsetLen(d, o, n) => json!({"op": "read_bits_with_offset_len", "dst_len": d, "off": o, "n": n}),
            Op::ResetRead => json!({"op": "reset_read_position"}),
            Op::Clear => json!({"op": "clear"}),
            Op::Rebuild => json!({"op": "rebuild"}),
            Op::OverwriteBit(p, b) => json!({"op": "overwrite_bit", "p": p, "bit": b}),
            Op::OverwriteBits(p, s, n) => json!({"op": "overwrite_bits", "p": p, "src": hex(s), "n": n}),
        }
    }
    fn from_json(j: &J) -> Op {
        let u = |k: &str| j[k].as_u64().unwrap() as usize;
        let s = || unhex(j["src"].as_str().unwrap());
        match j["op"].as_str().unwrap() {
            "write_bit" => Op::WriteBit(j["bit"].as_bool().unwrap()),
            "write_bits" => Op::WriteBits(s()),
            "write_bits_with_offset" => Op::WriteOffset(s(), u("off")),
            "write_bits_with_len" => Op::WriteLen(s(), u("n")),
            "write_bits_with_offset_len" => Op::WriteOffsetLen(s(), u("off"), u("n")),
            "read_bit" => Op::ReadBit,
            "read_bits" => Op::ReadBits(u("dst_len")),
            "read_bits_with_offset" => Op::ReadOffset(u("dst_len"), u("off")),
            "read_bits_with_len" => Op::ReadLen(u("dst_len"), u("n")),
            "read_bits_with_offset_len" => Op::ReadOffsetLen(u("dst_len"), u("off"), u("n")),
            "reset_read_position" => Op::ResetRead,
            "clear" => Op::Clear,
            "overwrite_bit" => Op::OverwriteBit(u("p") as u16, j["bit"].as_bool().unwrap()),
            "overwrite_bits" => Op::OverwriteBits(u("p") as u16, s(), u("n") as u16),
            _ => Op::Rebuild,
        }
    }
}

pub fn op_strategy() -> impl Strategy<Value = Op> {
    let bytes = || proptest::collection::vec(any::<u8>(), 0..12usize);
    let scale = |x: u16, max: usize| ((x as usize) * (max + 1)) >> 16;
    prop_oneof![
        3 => any::<bool>().prop_map(Op::WriteBit),
        2 => bytes().prop_map(Op::WriteBits),
        3 => (bytes(), any::<u16>()).prop_map(move |(s, o)| { let o = scale(o, s.len() * 8); Op::WriteOffset(s, o) }),
        3 => (bytes(), any::<u16>()).prop_map(move |(s, n)| { let n = scale(n, s.len() * 8 + 2); Op::WriteLen(s, n) }),
        5 => (bytes(), any::<u16>(), any::<u16>(), any::<bool>()).prop_map(move |(s, o, n, fit)| {
            let o = scale(o, s.len() * 8 + 1);
            let n = if fit { scale(n, (s.len() * 8).saturating_sub(o)) } else { scale(n, s.len() * 8 + 2) };
            Op::WriteOffsetLen(s, o, n)
        }),
        3 => Just(Op::ReadBit),
        2 => (0..6usize).prop_map(Op::ReadBits),
        2 => (0..6usize, any::<u16>()).prop_map(move |(d, o)| Op::ReadOffset(d, scale(o, d * 8))),
        2 => (0..6usize, any::<u16>()).prop_map(move |(d, n)| Op::ReadLen(d, scale(n, d * 8 + 2))),
        4 => (0..6usize, any::<u16>(), any::<u16>()).prop_map(move |(d, o, n)| Op::ReadOffsetLen(d, scale(o, d * 8 + 1), scale(n, d * 8 + 2))),
        1 => Just(Op::ResetRead),
        1 => Just(Op::Clear),
        1 => Just(Op::Rebuild),
        3 => (any::<u16>(), any::<bool>()).prop_map(|(p, b)| Op::OverwriteBit(p, b)),
        3 => (any::<u16>(), bytes(), any::<u16>()).prop_map(|(p, s, n)| Op::OverwriteBits(p, s, n)),
    ]
}

pub fn check_history(ops: &[Op]) -> Result<(), Fail> {
    let mut buf = BitBuffer::default();
    let mut model: Vec<bool> = Vec::new();
    let mut rpos = 0usize;
    for (step, op) in ops.iter().enumerate() {
        let name = op.to_json()["op"].as_str().unwrap().to_string();
        let at = |s: &str| format!("step {step} ({name}): {s}");
        match op {
            Op::WriteBit(_) | Op::WriteBits(_) | Op::WriteOffset(..) | Op::WriteLen(..) | Op::WriteOffsetLen(..) => {
                let (src, off, n): (Vec<u8>, usize, usize) = match op {
                    Op::WriteBit(b) => (vec![if *b { 0x80 } else { 0 }], 0, 1),
                    Op::WriteBits(s) => (s.clone(), 0, s.len() * 8),
                    Op::WriteOffset(s, o) => (s.clone(), *o, s.len() * 8 - *o),
                    Op::WriteLen(s, n) => (s.clone(), 0, *n),
                    Op::WriteOffsetLen(s, o, n) => (s.clone(), *o, *n),
                    _ => unreachable!(),
                };
                let res = catch(|| match op {
                    Op::WriteBit(b) => buf.write_bit(*b),
                    Op::WriteBits(s) => buf.write_bits(s),
                    Op::WriteOffset(s, o) => buf.write_bits_with_offset(s, *o),
                    Op::WriteLen(s, n) => buf.write_bits_with_len(s, *n),
                    Op::WriteOffsetLen(s, o, n) => buf.write_bits_with_offset_len(s, *o, *n),
                    _ => unreachable!(),
                });
                let res = res.map_err(|p| (format!("BitBuffer.{name}:panic"), at(&format!("panicked: {p}"))))?;
                let src_short = src.len() * 8 < off + n;
                if src_short {
                    if res.is_ok() {
                        return Err((format!("BitBuffer.{name}:ok-although-too-short"), at("Ok although the source is too short")));
                    }
                } else {
                    if let Err(e) = res {
                        return Err((format!("BitBuffer.{name}:err-although-fits"), at(&format!("Err({}) although the source is long enough", crate::util::kind_name(e.kind())))));
                    }
                    for i in 0..n {
                        model.push(bit_at(&src, off + i));
                    }
                }
            }
            Op::ReadBit | Op::ReadBits(_) | Op::ReadOffset(..) | Op::ReadLen(..) | Op::ReadOffsetLen(..) => {
                let (dlen, off, n) = match op {
                    Op::ReadBit => (1, 0, 1),
                    Op::ReadBits(d) => (*d, 0, d * 8),
                    Op::ReadOffset(d, o) => (*d, *o, d * 8 - o),
                    Op::ReadLen(d, n) => (*d, 0, *n),
                    Op::ReadOffsetLen(d, o, n) => (*d, *o, *n),
                    _ => unreachable!(),
                };
                let mut dst = vec![0xC3u8; dlen];
                let before = dst.clone();
                let res = catch(|| match op {
                    Op::ReadBit => buf.read_bit().map(|b| dst[0] = if b { 0xC3 | 0x80 } else { 0xC3 & 0x7f }),
                    Op::ReadBits(_) => buf.read_bits(&mut dst),
                    Op::ReadOffset(_, o) => buf.read_bits_with_offset(&mut dst, *o),
                    Op::ReadLen(_, n) => buf.read_bits_with_len(&mut dst, *n),
                    Op::ReadOffsetLen(_, o, n) => buf.read_bits_with_offset_len(&mut dst, *o, *n),
                    _ => unreachable!(),
                });
                let res = res.map_err(|p| (format!("BitBuffer.{name}:panic"), at(&format!("panicked: {p}"))))?;
                let src_short = model.len() < rpos + n;
                let dst_short = dlen * 8 < off + n;
                if src_short || dst_short {
                    if res.is_ok() {
                        return Err((
                            format!("BitBuffer.{name}:{}", if src_short { "ok-past-write-position" } else { "ok-although-dst-too-short" }),
                            at(&format!("Ok although only {} bits are readable (read position {rpos}, n {n}) / dst_short={dst_short}", model.len().saturating_sub(rpos))),
                        ));
                    }
                } else {
                    if let Err(e) = res {
                        return Err((format!("BitBuffer.{name}:err-although-fits"), at(&format!("Err({}) although {} bits are readable", crate::util::kind_name(e.kind()), model.len() - rpos))));
                    }
                    let mut want = before.clone();
                    for i in 0..n {
                        set_bit(&mut want, off + i, model[rpos + i]);
                    }
                    if dst != want {
                        return Err((format!("BitBuffer.{name}:copied-bits-wrong"), at(&format!("read {} want {}", hex(&dst), hex(&want)))));
                    }
                    rpos += n;
                }
            }
            Op::ResetRead => {
                buf.reset_read_position();
                rpos = 0;
            }
            Op::Clear => {
                buf.clear();
                model.clear();
                rpos = 0;
            }
            Op::OverwriteBit(p, bit) => {
                if !model.is_empty() {
                    let pos = ((*p as usize) * model.len()) >> 16;
                    let res = catch(|| buf.with_write_position_at(pos, |b| b.write_bit(*bit))).map_err(|pn| (format!("BitBuffer.{name}:panic"), at(&format!("panicked: {pn}"))))?;
                    if let Err(e) = res {
                        return Err((format!("BitBuffer.{name}:refused"), at(&format!("overwriting the written bit {pos} of {} failed: {e:?}", model.len()))));
                    }
                    model[pos] = *bit;
                }
            }
            Op::OverwriteBits(p, src, n) => {
                if !model.is_empty() && !src.is_empty() {
                    let pos = ((*p as usize) * model.len()) >> 16;
                    let room = (model.len() - pos).min(src.len() * 8);
                    let n = ((*n as usize) * (room + 1)) >> 16;
                    let res = catch(|| buf.with_write_position_at(pos, |b| b.write_bits_with_len(src, n))).map_err(|pn| (format!("BitBuffer.{name}:panic"), at(&format!("panicked: {pn}"))))?;
                    if let Err(e) = res {
                        return Err((format!("BitBuffer.{name}:refused"), at(&format!("overwriting {n} written bits at {pos} of {} failed: {e:?}", model.len()))));
                    }
                    for i in 0..n {
                        model[pos + i] = bit_at(src, i);
                    }
                }
            }
            Op::Rebuild => {
                let bit_len = buf.bit_len();
                let content = buf.content().to_vec();
                if content.len() * 8 >= bit_len {
                    buf = BitBuffer::from_bits(content, bit_len);
                    rpos = 0;
                }
            }
        }
        // (e) after every step
        if buf.bit_len() != model.len() {
            return Err((format!("BitBuffer.{name}:bit_len"), at(&format!("bit_len() = {} but {} bits were written", buf.bit_len(), model.len()))));
        }
        let want = bytes_of(&model);
        if buf.content().len() != want.len() {
            return Err((
                format!("BitBuffer.{name}:length-invariant"),
                at(&format!("content().len() = {} but ceil(bit_len/8) = {} (bit_len {})", buf.content().len(), want.len(), model.len())),
            ));
        }
        if buf.byte_len() != want.len() {
            return Err((format!("BitBuffer.{name}:length-invariant"), at("byte_len() != ceil(bit_len/8)")));
        }
        if buf.content() != &want[..] {
            let first = (0..want.len() * 8).find(|i| bit_at(buf.content(), *i) != bit_at(&want, *i)).unwrap();
            return Err((
                format!("BitBuffer.{name}:{}", if first >= model.len() { "padding-not-zero" } else { "content-differs" }),
                at(&format!("content {} want {} (first difference at bit {first}, bit_len {})", hex(buf.content()), hex(&want), model.len())),
            ));
        }
        // the read views derived from the buffer (`Bits::from(&BitBuffer)`, as a reader would take
        // it) see exactly the written bits: the last one is readable, the padding is not
        {
            use asn1rs::protocol::per::unaligned::buffer::Bits;
            use asn1rs::protocol::per::unaligned::ScopedBitRead;
            let view = Bits::from(&buf);
            if view.len() != model.len() {
                return Err((format!("Bits.from-BitBuffer:len"), at(&format!("Bits::from(&BitBuffer).len() = {} but {} bits were written", view.len(), model.len()))));
            }
            let mut view = Bits::from(&buf);
            if !model.is_empty() {
                let _ = view.set_pos(model.len() - 1);
                match catch(|| view.read_bit()) {
                    Ok(Ok(b)) if b == model[model.len() - 1] => {}
                    other => return Err(("Bits.from-BitBuffer:last-bit".into(), at(&format!("the last written bit is not readable through Bits::from(&BitBuffer): {other:?}")))),
                }
            }
            let mut view = Bits::from(&buf);
            let _ = view.set_pos(model.len());
            match catch(|| view.read_bit()) {
                Ok(Err(_)) => {}
                other => return Err(("Bits.from-BitBuffer:reads-padding".into(), at(&format!("reading behind the last written bit through Bits::from(&BitBuffer) gives {other:?} instead of Err")))),
            }
        }
    }
    Ok(())
}

fn histories(report: &Report, shards: u64, cases_per_shard: u32) {
    report.ctx.my_shards(shards).into_par_iter().for_each(|shard| {
        if report.too_many_violations() {
            return;
        }
        let mut runner = report.ctx.runner("history", shard, cases_per_shard);
        let mut local = Local::default();
        let failed = std::cell::Cell::new(false);
        let local_cell = std::cell::RefCell::new(&mut local);
        let strat = proptest::collection::vec(op_strategy(), 1..40usize);
        let result = runner.run(&strat, |ops| {
            if !failed.get() {
                let mut l = local_cell.borrow_mut();
                l.eval();
                let writes = ops.iter().filter(|o| matches!(o, Op::WriteBit(_) | Op::WriteBits(_) | Op::WriteOffset(..) | Op::WriteLen(..) | Op::WriteOffsetLen(..))).count();
                let reads = ops.iter().filter(|o| matches!(o, Op::ReadBit | Op::ReadBits(_) | Op::ReadOffset(..) | Op::ReadLen(..) | Op::ReadOffsetLen(..))).count();
                if writes >= 1 && ops.len() >= 2 {
                    l.nontrivial(hash_of(&ops));
                    l.class("history");
                    if writes >= 2 && reads >= 1 {
                        l.class("history:>=2 writes and a read");
                    }
                    if ops.len() >= 5 && ops.len() <= 8 {
                        l.sample(json!({"type": "history", "ops": ops.iter().map(Op::to_json).collect::<Vec<_>>()}));
                    }
                }
            }
            match check_history(&ops) {
                Ok(()) => Ok(()),
                Err((key, msg)) => {
                    failed.set(true);
                    Err(TestCaseError::fail(format!("{key}\u{1}{msg}")))
                }
            }
        });
        if let Err(proptest::test_runner::TestError::Fail(reason, ops)) = result {
            let r = reason.message().to_string();
            let (key, msg) = r.split_once('\u{1}').unwrap_or(("unknown", &r));
            report.fail(key, msg, json!({"type": "history", "ops": ops.iter().map(Op::to_json).collect::<Vec<_>>(), "shrunk": true}));
        }
        report.merge_local(&mut local);
    });
}

// ------------------------------------------------------------------------------------------

const RULE: &str = "single operations: all (kind in {slice write, slice read, Bits read}, form, a_len, b_len, cursor, offset, n) for buffers up to the tier's size with three fill patterns (exhaustive), plus random buffers up to 64 bytes (proptest); histories: random sequences of 1..40 BitBuffer operations checked against a Vec<bool> model after every step. Non-trivial: a single operation that moves n > 0 bits (distinct = hash of all arguments) or a history with >= 1 write and >= 2 operations (distinct = hash of the sequence).";

pub fn run(ctx: Ctx) -> i32 {
    let report = Report::new(ctx.clone(), RULE);
    report.assumption("derived-length operations (write_bits_with_offset / read_bits_with_offset) are only called with offset <= 8*len (their length is 8*len - offset)");
    report.assumption("BitBuffer::from_bits is only given canonical input (exact length, zero padding)");
    report.assumption("nothing is asserted about buffer content or cursor of a slice after an operation returned Err (the property does not claim it); for BitBuffer the length/padding invariant is asserted after failed operations too ('always')");
    // a raw libFuzzer input (timeout / out-of-memory artifacts have no decoded case)
    if let Some(path) = &ctx.replay {
        let j = read_replay(path);
        if let Some(h) = j["case"]["fuzz_input"].as_str() {
            report.eval(1);
            match fuzz_one(&unhex(h)) {
                None => println!("replay: case passes"),
                Some((key, msg, case)) => {
                    report.fail(&key, &msg, case);
                }
            }
            return report.finish();
        }
    }
    if let Some(path) = &ctx.replay {
        let j = read_replay(path);
        let case = &j["case"];
        let res = match case["type"].as_str() {
            Some("single") => check_case(&Case::from_json(&case["op"])),
            Some("history") => {
                let ops: Vec<Op> = case["ops"].as_array().unwrap().iter().map(Op::from_json).collect();
                check_history(&ops)
            }
            _ => {
                eprintln!("unknown replay type");
                return 2;
            }
        };
        report.eval(1);
        if let Err((key, msg)) = res {
            report.fail(&key, &msg, case.clone());
        } else {
            println!("replay: case passes");
        }
        return report.finish();
    }
    let max_len = ctx.tier.pick(5, 6);
    let bad = run_in_workers(&report, 16, std::time::Duration::from_secs(ctx.tier.pick(600, 7200)), &|report: &Report| {
        enumerate(report, max_len);
        random_singles(report, 64, ctx.tier.pick(5_000, 100_000), 64);
        histories(report, 64, ctx.tier.pick(600, 15_000));
    });
    dead_workers_are_infra(&report, &bad);
    report.exhaustive(&format!("all single slice/Bits operations with both buffers <= {max_len} bytes, three fill patterns"));
    // every (offset mod 8, cursor mod 8, n mod 8, path) class must be populated
    let mut missing = Vec::new();
    for o in 0..8 {
        for p in 0..8 {
            for n in 0..8 {
                for path in ["bulk", "bitwise"] {
                    let k = format!("{o}/{p}/{n}/{path}");
                    if report.class_count(&k) == 0 {
                        missing.push(k);
                    }
                }
            }
        }
    }
    if !missing.is_empty() {
        report.infra(&format!("generator fault: {} alignment classes never generated, e.g. {}", missing.len(), missing[0]));
    }
    report.finish()
}


/// fuzz entry (engine/fuzz bitops): the bytes drive the same strategies as the proptest tiers
pub fn fuzz_one(data: &[u8]) -> Option<(String, String, J)> {
    let (mode, rest) = data.split_first()?;
    if mode & 1 == 0 {
        let c = from_fuzz_bytes(&case_strategy(64), rest)?;
        check_case(&c).err().map(|(k, m)| (k, m, json!({"type": "single", "op": c.to_json()})))
    } else {
        // one operation per 8-byte chunk
        let ops = from_fuzz_chunks(&op_strategy(), rest, 40);
        check_history(&ops).err().map(|(k, m)| (k, m, json!({"type": "history", "ops": ops.iter().map(Op::to_json).collect::<Vec<_>>()})))
    }
}
