//! C18 part a — the generated .proto file is valid proto3.

use crate::front::*;
use crate::proto::proto_text;
use proptest::prelude::*;
use rayon::prelude::*;
use serde_json::{json, Value as J};
use vcore::genfront::frontend_module_strategy;
use vcore::harness::*;
use vcore::print::module_text;
use vcore::proto;
use vcore::schema::*;

type Fail = (String, String);

/// shapes of the open known findings: nested lists (`repeated repeated`), list as CHOICE alternative
pub fn finding_shapes(m: &Module) -> Vec<&'static str> {
    fn walk(t: &Type, in_list: bool, out: &mut Vec<&'static str>) {
        match t {
            Type::SequenceOf { elem, .. } | Type::SetOf { elem, .. } => {
                if in_list {
                    out.push("protobuf-nested-lists");
                }
                walk(elem, true, out);
            }
            Type::Sequence(f) | Type::Set(f) => {
                for c in &f.comps {
                    walk(&c.ty, false, out);
                }
            }
            Type::Choice { alts, .. } => {
                if alts.iter().any(|a| a.name == "value") {
                    out.push("choice-alternative-named-value");
                }
                for a in alts {
                    if matches!(a.ty, Type::SequenceOf { .. } | Type::SetOf { .. }) {
                        out.push("protobuf-list-in-choice");
                    }
                    walk(&a.ty, false, out);
                }
            }
            _ => {}
        }
    }
    let mut out = Vec::new();
    for d in m.defs() {
        walk(&d.ty, false, &mut out);
        // (open C09 finding: two items with the same name)
        let mut t = &d.ty;
        let mut is_list = false;
        while let Type::SequenceOf { elem, .. } | Type::SetOf { elem, .. } = t {
            is_list = true;
            t = elem;
        }
        if is_list && t.is_own_rust_type() {
            out.push("toplevel-list-of-inline-constructed");
        }
    }
    out.sort();
    out.dedup();
    out
}

fn protoc_check(text: &str, tag: u64) -> Option<String> {
    if !std::path::Path::new("/usr/bin/protoc").exists() {
        return None;
    }
    let dir = std::env::temp_dir().join(format!("verif-c18-{}-{tag}", std::process::id()));
    let _ = std::fs::create_dir_all(&dir);
    let file = dir.join("m.proto");
    let _ = std::fs::write(&file, text);
    let out = std::process::Command::new("/usr/bin/protoc").arg(format!("--proto_path={}", dir.display())).arg("-o/dev/null").arg("m.proto").output().ok()?;
    let _ = std::fs::remove_dir_all(&dir);
    if out.status.success() {
        None
    } else {
        Some(String::from_utf8_lossy(&out.stderr).lines().next().unwrap_or("").to_string())
    }
}

pub fn check_text(asn: &str, use_protoc: bool, tag: u64) -> Result<&'static str, Fail> {
    if parse_and_resolve(asn).is_err() {
        return Ok("rejected-by-front-end");
    }
    let text = match proto_text(asn) {
        Ok(t) => t,
        Err(e) if e.starts_with("panic") => return Ok("generator-panics"), // C14's subject
        Err(e) => return Err(("proto-generator-error".into(), format!("the .proto generator fails on an accepted module: {e}"))),
    };
    let file = proto::parse(&text).map_err(|e| ("proto-syntax".to_string(), format!("the generated .proto is not valid proto3 syntax: {e}\n{text}")))?;
    let errs = proto::validate(&file);
    if let Some(first) = errs.first() {
        let class: String = first.split('`').next().unwrap_or("").split(':').last().unwrap_or("").trim().chars().filter(|c| !c.is_ascii_digit()).collect::<String>().replace(' ', "-");
        return Err((format!("proto-invalid:{class}"), format!("the generated .proto violates proto3 rules: {}\n{text}", errs.join("; "))));
    }
    if use_protoc && file.imports.is_empty() {
        if let Some(e) = protoc_check(&text, tag) {
            return Err(("protoc-rejects".into(), format!("protoc rejects the generated .proto although the mini-parser accepts it: {e}\n{text}")));
        }
    }
    Ok("valid")
}

// ---------------------------------------------------------------------------------------------
// several modules: types imported from another module (package-qualified names, import lines)

/// (library module, user module): the user imports every type of the library and uses each one as
/// plain / OPTIONAL component, as element of SEQUENCE OF / SET OF, as CHOICE alternative and
/// inside an inline SEQUENCE
pub fn import_pair(lib_name: &str, user_name: &str) -> (Module, Module) {
    let c = |name: &str, ty: Type, presence: Presence| Comp { name: name.to_string(), tag: None, ty, presence };
    let small = || Type::int(0, 255);
    let lib_defs = vec![
        Def { name: "Point".into(), tag: None, ty: Type::Sequence(Fields { comps: vec![c("x", small(), Presence::Mandatory), c("y", small(), Presence::Mandatory)], root: None }) },
        Def { name: "Kind".into(), tag: None, ty: Type::Enumerated { items: vec![("walk".into(), None), ("ride".into(), None)], root: None } },
        Def { name: "Ident".into(), tag: None, ty: small() },
        Def { name: "Label".into(), tag: None, ty: Type::Str { cs: Charset::Utf8, size: None } },
        Def { name: "Shape".into(), tag: None, ty: Type::Choice { alts: vec![Alt { name: "dot".into(), tag: None, ty: Type::Boolean }, Alt { name: "num".into(), tag: None, ty: small() }], root: None } },
    ];
    let names: Vec<String> = lib_defs.iter().map(|d| d.name.clone()).collect();
    let lib = Module::simple(lib_name, lib_defs);
    let r = |n: &str| Type::Ref(n.to_string());
    let mut user_defs = Vec::new();
    for (k, n) in names.iter().enumerate() {
        user_defs.push(Def {
            name: format!("Uses{k}"),
            tag: None,
            ty: Type::Sequence(Fields {
                comps: vec![
                    c("plain", r(n), Presence::Mandatory),
                    c("maybe", r(n), Presence::Optional),
                    c("many", Type::SequenceOf { elem: Box::new(r(n)), size: None }, Presence::Mandatory),
                    c("bag", Type::SetOf { elem: Box::new(r(n)), size: Some(Size::range(0, Some(3), false)) }, Presence::Mandatory),
                    c("which", Type::Choice { alts: vec![Alt { name: "it".into(), tag: None, ty: r(n) }, Alt { name: "none".into(), tag: None, ty: Type::Null }], root: None }, Presence::Mandatory),
                    c("inner", Type::Sequence(Fields { comps: vec![c("deep", r(n), Presence::Mandatory)], root: None }), Presence::Mandatory),
                ],
                root: None,
            }),
        });
        user_defs.push(Def { name: format!("Alias{k}"), tag: None, ty: r(n) });
        user_defs.push(Def { name: format!("List{k}"), tag: None, ty: Type::SequenceOf { elem: Box::new(r(n)), size: None } });
    }
    let mut user = Module::simple(user_name, user_defs);
    user.imports = vec![Import { symbols: names, from: lib_name.to_string(), oid: None }];
    (lib, user)
}

pub fn check_module_set(texts: &[String], use_protoc: bool) -> Result<&'static str, Fail> {
    use asn1rs_model::generate::protobuf::ProtobufDefGenerator;
    use asn1rs_model::generate::Generator;
    use asn1rs_model::protobuf::ToProtobufModel;
    let files = catch(|| -> Result<Vec<(String, String)>, String> {
        let mut resolver = asn1rs_model::asn::MultiModuleResolver::default();
        for t in texts {
            let tokens = asn1rs_model::parse::Tokenizer::default().parse(t);
            resolver.push(asn1rs_model::Model::try_from(tokens).map_err(|e| format!("parse: {e}"))?);
        }
        let models = resolver.try_resolve_all().map_err(|e| format!("resolve: {e}"))?;
        let scope = models.iter().collect::<Vec<_>>();
        let mut g = ProtobufDefGenerator::default();
        for m in &models {
            g.add_model(m.to_rust_with_scope(&scope[..]).to_protobuf());
        }
        g.to_string().map_err(|e| format!("generator: {e:?}"))
    });
    let files = match files {
        Err(p) => return Err(("set:generator-panic".into(), format!("generating the .proto files of {} modules panicked: {p}", texts.len()))),
        Ok(Err(e)) if e.starts_with("parse") || e.starts_with("resolve") => return Ok("rejected-by-front-end"),
        Ok(Err(e)) => return Err(("set:generator-error".into(), e)),
        Ok(Ok(f)) => f,
    };
    let all = files.iter().map(|(n, c)| format!("// ---- {n}\n{c}")).collect::<Vec<_>>().join("\n");
    let mut parsed = Vec::new();
    for (name, content) in &files {
        parsed.push((name.clone(), proto::parse(content).map_err(|e| ("set:proto-syntax".to_string(), format!("{name} is not valid proto3 syntax: {e}\n{all}")))?));
    }
    let errs = proto::validate_set(&parsed);
    if let Some(first) = errs.first() {
        let class = if first.contains("not defined in the file") { "unresolvable-type" } else if first.contains("without importing") { "missing-import" } else { "other" };
        return Err((format!("set:proto-invalid:{class}"), format!("the generated .proto files are not valid together: {}\n{all}", errs.join("; "))));
    }
    if use_protoc && std::path::Path::new("/usr/bin/protoc").exists() {
        let dir = std::env::temp_dir().join(format!("verif-c18-set-{}-{}", std::process::id(), hash_of(&all)));
        let _ = std::fs::create_dir_all(&dir);
        for (name, content) in &files {
            let _ = std::fs::write(dir.join(name), content);
        }
        let out = std::process::Command::new("/usr/bin/protoc").arg(format!("--proto_path={}", dir.display())).arg("-o/dev/null").args(files.iter().map(|(n, _)| n.clone())).output();
        let _ = std::fs::remove_dir_all(&dir);
        if let Ok(out) = out {
            if !out.status.success() {
                return Err(("set:protoc-rejects".into(), format!("protoc rejects the generated files although the mini-parser accepts them: {}\n{all}", String::from_utf8_lossy(&out.stderr).lines().next().unwrap_or(""))));
            }
        }
    }
    Ok("valid-set")
}

const RULE: &str = "part a: generated front-end-profile modules (proptest) -> .proto text of ProtobufDefGenerator -> independent proto3 mini-parser: syntax; unique field names and numbers per message incl. oneof members; numbers >= 1 and legal; first enum value 0; unique enum value names per package; referenced messages / enums exist; no `repeated repeated`; no `repeated` inside oneof; protoc as second opinion on a sample when /usr/bin/protoc exists; plus a family of module pairs in which one module imports every type kind of the other and uses it as plain / OPTIONAL component, list element, CHOICE alternative, nested and top-level alias (all files together: every non-local type is the package-qualified name of a type of an imported file). Non-trivial: the file has >= 2 definitions or a oneof / enum / repeated field; distinct = text hash.";

pub fn run(ctx: Ctx) -> i32 {
    let report = Report::new(ctx.clone(), RULE);
    let replay = |c: &J| -> Result<(), Fail> {
        if c["part"].as_str() != Some("a") {
            return Ok(());
        }
        if let Some(texts) = c["texts"].as_array() {
            let texts: Vec<String> = texts.iter().filter_map(|t| t.as_str().map(|s| s.to_string())).collect();
            return check_module_set(&texts, true).map(|_| ());
        }
        check_text(c["text"].as_str().unwrap_or(""), true, 0).map(|_| ())
    };
    if let Some(path) = &ctx.replay {
        let j = read_replay(path);
        report.eval(1);
        match replay(&j["case"]) {
            Ok(()) => println!("replay: case passes"),
            Err((key, msg)) => {
                report.fail(&format!("a:{key}"), &msg, j["case"].clone());
            }
        }
        return report.finish();
    }
    let tier = ctx.tier;
    let shards = 64u64;
    let cases = tier.pick(150u32, 5_000u32);
    let mut open: Vec<&'static str> = ["protobuf-nested-lists", "protobuf-list-in-choice", "choice-alternative-named-value"].into_iter().filter(|k| report.known.is_open("C18", k)).collect();
    if report.known.is_open("C09", "toplevel-list-of-inline-constructed") {
        open.push("toplevel-list-of-inline-constructed");
    }
    report.run_probes(&replay);
    if ctx.worker.is_none() {
        // module pairs with imported types (deterministic family; module names vary the package / file names)
        for (lib, user) in [("Shared-Types", "Track-Data"), ("Lib", "App"), ("Common_Defs", "User-Module"), ("geo", "Trip2"), ("Base-Module", "Top")] {
            let (l, u) = import_pair(lib, user);
            let texts = vec![module_text(&l), module_text(&u)];
            report.eval(1);
            match check_module_set(&texts, true) {
                Ok(what) => {
                    report.class(&format!("a:{what}"), 1);
                    if what == "valid-set" {
                        report.nontrivial(hash_of(&texts));
                    }
                }
                Err((key, msg)) => {
                    report.fail(&format!("a:{key}"), &msg, json!({"part": "a", "texts": texts}));
                }
            }
        }
    }
    let bad = run_in_workers(&report, 16, std::time::Duration::from_secs(tier.pick(600, 7200)), &|report: &Report| {
        report.ctx.my_shards(shards).par_iter().for_each(|&shard| {
            if report.too_many_violations() {
                return;
            }
            let strat = frontend_module_strategy(2, 4);
            let mut runner = report.ctx.runner("c18a", shard, cases);
            let mut local = Local::default();
            let failed = std::cell::Cell::new(false);
            let cell = std::cell::RefCell::new(&mut local);
            let counter = std::cell::Cell::new(0u64);
            let result = runner.run(&strat, |m: Module| {
                if finding_shapes(&m).iter().any(|k| open.contains(k)) {
                    if !failed.get() {
                        cell.borrow_mut().class("a:excluded-by-known-findings");
                    }
                    return Ok(());
                }
                let text = module_text(&m);
                counter.set(counter.get() + 1);
                // protoc on every 16th module (a process start each)
                let res = check_text(&text, counter.get() % 16 == 0, shard * 1_000_000 + counter.get());
                if !failed.get() {
                    let mut l = cell.borrow_mut();
                    l.eval();
                    if let Ok(what) = &res {
                        l.class(&format!("a:{what}"));
                        if *what == "valid" {
                            l.nontrivial(hash_of(&text));
                            if l.samples.len() < 1 && text.len() < 400 {
                                l.sample(json!({"part": "a", "asn1": text, "proto": proto_text(&text).unwrap_or_default()}));
                            }
                        }
                    }
                }
                res.map(|_| ()).map_err(|(key, msg)| {
                    failed.set(true);
                    TestCaseError::fail(format!("{key}\u{1}{msg}"))
                })
            });
            if let Err(proptest::test_runner::TestError::Fail(reason, m)) = result {
                let r = reason.message().to_string();
                let (key, msg) = r.split_once('\u{1}').unwrap_or(("unknown", &r));
                report.fail(&format!("a:{key}"), msg, json!({"part": "a", "module": serde_json::to_value(&m).unwrap(), "text": module_text(&m)}));
            }
            report.merge_local(&mut local);
        });
    });
    dead_workers_are_infra(&report, &bad);
    report.extra("protoc_available", json!(std::path::Path::new("/usr/bin/protoc").exists()));
    if report.class_count("a:valid") == 0 && report.violation_count() == 0 {
        report.infra("no .proto was validated");
    }
    report.finish()
}
