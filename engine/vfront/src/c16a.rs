//! C16 part a — SET components are visited in canonical tag order (X.680 8.6), SEQUENCE keeps
//! textual order, tags are assigned per X.680: observed on the macro expansion (no rustc).

use crate::expansion::*;
use asn1rs_model::generate::walker::AsnDefWriter;
use rayon::prelude::*;
use serde_json::{json, Value as J};
use vcore::harness::*;
use vcore::print::module_text;
use vcore::refcodec::{comp_order, comp_tags};
use vcore::schema::*;
use vcore::zoo::{c16_fields, c16_helper_defs, c16_normalise_additions};

type Fail = (String, String);

fn class_name(c: TagClass) -> &'static str {
    match c {
        TagClass::Universal => "Universal",
        TagClass::Application => "Application",
        TagClass::Context => "ContextSpecific",
        TagClass::Private => "Private",
    }
}

/// checks every Set*/Seq* definition of the module
pub fn check_module(m: &Module) -> Result<usize, Fail> {
    let text = module_text(m);
    let source = generated_source(&text).map_err(|p| ("front-end-panic".to_string(), format!("asn_to_rust panicked on a valid module: {p}")))?;
    let expanded = expand_source(&source).map_err(|e| ("expansion-failed".to_string(), e))?;
    let mut checked = 0;
    for d in m.defs() {
        let (f, is_set) = match &d.ty {
            Type::Set(f) if d.name.starts_with("Set") => (f, true),
            Type::Sequence(f) if d.name.starts_with("Seq") => (f, false),
            _ => continue,
        };
        let ex = expanded.iter().find(|e| e.name == d.name).ok_or_else(|| ("harness:lookup".to_string(), format!("{} not found in the generated file", d.name)))?;
        let order = comp_order(m, f, is_set).map_err(|e| ("harness:order".to_string(), e))?;
        let want: Vec<String> = order.iter().map(|&i| f.comps[i].name.clone()).collect();
        let w = write_order(&ex.text);
        let r = read_order(&ex.text);
        let kind = if is_set { "SET" } else { "SEQUENCE" };
        let asn = vcore::print::type_text(&d.ty);
        if w != want {
            return Err((format!("{kind}:write-order"), format!("{}: write_seq visits {:?} but the {} order is {:?} — {asn}", d.name, w, if is_set { "canonical (X.680 8.6)" } else { "textual" }, want)));
        }
        if r != want {
            return Err((format!("{kind}:read-order"), format!("{}: read_seq visits {:?} but the order must be {:?} (write_seq: {:?}) — {asn}", d.name, r, want, w)));
        }
        // tags
        let tags = comp_tags(m, &f.comps).map_err(|e| ("harness:tags".to_string(), e))?;
        for (c, t) in f.comps.iter().zip(&tags) {
            let cname = format!("___asn1rs_{}Constraint", AsnDefWriter::combined_field_type_name(&d.name, &c.name));
            match tag_of(&ex.text, &cname) {
                None => return Err(("harness:tag-lookup".to_string(), format!("{}: no TAG constant found for component {} ({cname})", d.name, c.name))),
                Some((class, number)) => {
                    if class != class_name(t.class) || number != t.number {
                        let how = if c.tag.is_some() {
                            "explicit"
                        } else if f.comps.iter().all(|x| x.tag.is_none()) {
                            "automatic"
                        } else if matches!(c.ty, Type::Ref(_)) {
                            "referenced-type"
                        } else {
                            "universal"
                        };
                        return Err((format!("tag:{how}"), format!("{}: component {} has TAG {class}({number}) but X.680 gives {}({}) — {asn}", d.name, c.name, class_name(t.class), t.number)));
                    }
                }
            }
        }
        checked += 1;
    }
    Ok(checked)
}

fn permutations(n: usize) -> Vec<Vec<usize>> {
    let mut out = vec![vec![]];
    for _ in 0..n {
        let mut next = Vec::new();
        for p in &out {
            for i in 0..n {
                if !p.contains(&i) {
                    let mut q = p.clone();
                    q.push(i);
                    next.push(q);
                }
            }
        }
        out = next;
    }
    out
}

/// all root permutations of one sampled component multiset, as SET and as SEQUENCE
pub fn module_for(base: &Fields, id: u64) -> Module {
    let helper = Module::simple("H", c16_helper_defs());
    let mut defs = c16_helper_defs();
    let n_root = base.root.unwrap_or(base.comps.len());
    for (p, perm) in permutations(n_root).into_iter().enumerate() {
        let mut f = base.clone();
        for (k, &i) in perm.iter().enumerate() {
            f.comps[k] = base.comps[i].clone();
        }
        c16_normalise_additions(&helper, &mut f);
        defs.push(Def { name: format!("Set{p}"), tag: None, ty: Type::Set(f.clone()) });
        if p % 7 == 0 {
            defs.push(Def { name: format!("Seq{p}"), tag: None, ty: Type::Sequence(f) });
        }
    }
    Module::simple(&format!("C16A{id}"), defs)
}

const RULE: &str = "part a (front end, no rustc): for every pair of untagged candidates with different outermost tags (builtin types, inline SEQUENCE / SEQUENCE OF / SET / SET OF / ENUMERATED, references) next to one tagged component, and for every generated multiset of 2..5 components (explicit tags of the four classes, untagged builtin and inline constructed types, OPTIONAL / DEFAULT, untagged references to a tagged definition / an untagged definition / an untagged CHOICE / a SEQUENCE; with and without extension marker) ALL permutations of the root components are printed as SET (and every 7th as SEQUENCE), pushed through proc_macro::asn_to_rust -> syn -> parse_asn_definition -> expand, and the order of fields in write_seq and read_seq and the TAG constants are read from the expansion text. Oracle: own implementation of X.680 8.6 (UNIVERSAL < APPLICATION < context < PRIVATE, then number), root before additions, automatic tags [0]..[n-1] iff no component of the list is tagged, referenced type's tag for untagged references; SEQUENCE keeps textual order; read and write order identical. Non-trivial: canonical order != textual order; distinct = definition text.";

pub fn run(ctx: Ctx) -> i32 {
    let report = Report::new(ctx.clone(), RULE);
    report.assumption("extension additions are generated untagged or with tags ascending in textual order (where 'canonical order' and 'order of definition' coincide)");
    let replay = |c: &J| -> Result<(), Fail> {
        if c["part"].as_str() != Some("a") {
            return Ok(());
        }
        let m: Module = serde_json::from_value(c["module"].clone()).map_err(|e| ("harness:replay".to_string(), e.to_string()))?;
        check_module(&m).map(|_| ())
    };
    if let Some(path) = &ctx.replay {
        let j = read_replay(path);
        report.eval(1);
        match replay(&j["case"]) {
            Ok(()) => println!("replay: case passes"),
            Err((key, msg)) => {
                report.fail(&format!("a:{key}"), &msg, j["case"].clone());
            }
        }
        return report.finish();
    }
    let tier = ctx.tier;
    let pairs = vcore::zoo::c16_pair_family();
    let n_random = tier.pick(600u64, 4000u64);
    let n_bases = n_random + pairs.len() as u64;
    let bad = run_in_workers(&report, 16, std::time::Duration::from_secs(tier.pick(600, 7200)), &|report: &Report| {
        report.ctx.my_shards(n_bases).par_iter().for_each(|&b| {
            if report.too_many_violations() {
                return;
            }
            let mut state = report.ctx.derive("c16a", b) | 1;
            let mut next = move || {
                state ^= state << 13;
                state ^= state >> 7;
                state ^= state << 17;
                state >> 11
            };
            // the random multisets first, then the systematic pair family
            let base = if b < n_random { c16_fields(&mut next) } else { pairs[(b - n_random) as usize].clone() };
            let m = module_for(&base, b);
            let mut local = Local::default();
            match check_module(&m) {
                Ok(_) => {
                    for d in m.defs() {
                        if let Type::Set(f) = &d.ty {
                            if !d.name.starts_with("Set") {
                                continue;
                            }
                            local.eval();
                            let order = comp_order(&m, f, true).unwrap_or_default();
                            if order.iter().enumerate().any(|(a, b)| a != *b) {
                                local.nontrivial(hash_of(&vcore::print::type_text(&d.ty)));
                                local.class("a:set-reordered");
                            } else {
                                local.class("a:set-textual");
                            }
                            let any_tagged = f.comps.iter().any(|c| c.tag.is_some());
                            local.class(if !any_tagged { "a:automatic-tags" } else if f.comps.iter().all(|c| c.tag.is_some()) { "a:all-explicit" } else { "a:mixed" });
                        } else if d.name.starts_with("Seq") {
                            local.eval();
                            local.class("a:sequence");
                        }
                    }
                    if b % 40 == 0 {
                        if let Some(d) = m.defs().find(|d| d.name == "Set1") {
                            local.sample(json!({"part": "a", "definition": vcore::print::type_text(&d.ty)}));
                        }
                    }
                }
                Err((key, msg)) => {
                    report.fail(&format!("a:{key}"), &msg, json!({"part": "a", "module": serde_json::to_value(&m).unwrap(), "text": module_text(&m)}));
                }
            }
            report.merge_local(&mut local);
        });
    });
    dead_workers_are_infra(&report, &bad);
    for must in ["a:set-reordered", "a:automatic-tags", "a:mixed", "a:all-explicit", "a:sequence"] {
        if report.class_count(must) == 0 && report.violation_count() == 0 {
            report.infra(&format!("generator fault: class {must} never generated"));
        }
    }
    report.finish()
}
