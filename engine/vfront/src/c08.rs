//! C08 part a — codegen is invertible: the emitted Rust source, read back through the attribute
//! macro's parser, yields the Rust model the generator started from.

use crate::expansion::*;
use crate::front::*;
use asn1rs_model::rust::Rust;
use asn1rs_model::{Definition, Model};
use proptest::prelude::*;
use rayon::prelude::*;
use serde_json::{json, Value as J};
use vcore::genfront::frontend_module_strategy;
use vcore::harness::*;
use vcore::print::module_text;
use vcore::schema::Module;

type Fail = (String, String);

fn kind_of(r: &Rust) -> &'static str {
    match r {
        Rust::Struct { .. } => "struct",
        Rust::Enum(_) => "enum",
        Rust::DataEnum(_) => "data-enum",
        Rust::TupleStruct { .. } => "tuple-struct",
    }
}

/// Differences that carry no information:
///  * "modulo the macro's derived default tag of an untagged CHOICE" — likewise the tag the macro
///    derives for an untagged transparent wrapper from the wrapped type: when the original has no
///    tag, the tag of the re-parsed definition is not compared;
///  * MAX is i64::MAX (README): `U64(Range(x, None, ..))` == `U64(Range(x, Some(i64::MAX), ..))`,
///    and a missing lower bound of an unsigned type is 0.
fn equivalent(orig: &Definition<Rust>, back: &Definition<Rust>) -> bool {
    use asn1rs_model::asn::TagProperty;
    if orig == back {
        return true;
    }
    let mut b = back.clone();
    if orig.1.tag().is_none() {
        b.1.reset_tag();
    }
    if orig == &b {
        return true;
    }
    let norm = |d: &Definition<Rust>| -> String {
        let s = format!("{:?}", d);
        // inside U64(Range(..)) only
        let mut out = String::new();
        let mut rest = s.as_str();
        while let Some(p) = rest.find("U64(Range(") {
            out.push_str(&rest[..p]);
            let tail = &rest[p..];
            let end = tail.find("))").map(|e| e + 2).unwrap_or(tail.len());
            let inner = tail[..end].replace("Some(9223372036854775807)", "None").replace("U64(Range(Some(0),", "U64(Range(None,");
            out.push_str(&inner);
            rest = &tail[end..];
        }
        out.push_str(rest);
        // a DEFAULT enumeration item is kept with its ASN.1 name in the model the generator starts
        // from and with its Rust name after re-parsing; both print the same Rust path
        let s = out;
        let mut out = String::new();
        let mut rest = s.as_str();
        while let Some(p) = rest.find("EnumeratedVariant(\"") {
            out.push_str(&rest[..p]);
            let tail = &rest[p..];
            let end = tail.find("\")").map(|e| e + 2).unwrap_or(tail.len());
            let inner = &tail["EnumeratedVariant(\"".len()..end.saturating_sub(2)];
            let mut parts = inner.split("\", \"");
            let ty = parts.next().unwrap_or("");
            let item = parts.next().unwrap_or("");
            // (compared without case and punctuation: the name mangling is not idempotent, so
            // mangling both sides again would not make them meet)
            let loose = |s: &str| s.chars().filter(|c| c.is_ascii_alphanumeric()).map(|c| c.to_ascii_lowercase()).collect::<String>();
            out.push_str(&format!("EnumeratedVariant(\"{}\", \"{}\")", loose(ty), loose(item)));
            rest = &tail[end..];
        }
        out.push_str(rest);
        out
    };
    norm(orig) == norm(&b)
}

pub fn check_text(text: &str) -> Result<&'static str, Fail> {
    let model = match parse_and_resolve(text) {
        Ok(m) => m,
        Err(_) => return Ok("rejected-by-front-end"),
    };
    let rust = match catch(|| model.to_rust()) {
        Ok(r) => r,
        Err(_) => return Ok("to_rust-panics"), // C14's subject
    };
    // two generated items with the same name (open C09 finding: an inline constructed element of a
    // top-level list collides with the list's own name): not attributable here
    {
        let mut names: Vec<&str> = rust.definitions.iter().map(|d| d.0.as_str()).collect();
        names.sort();
        if names.windows(2).any(|w| w[0] == w[1]) {
            return Ok("duplicate-item-names(C09)");
        }
    }
    let source = match generated_source(text) {
        Ok(s) => s,
        Err(_) => return Ok("generator-panics"), // C09 / C14
    };
    let expanded = match expand_source(&source) {
        Ok(e) => e,
        Err(e) => return Err(("attribute-parser-rejects-generated-code".into(), e)),
    };
    for d in &rust.definitions {
        let ex = expanded.iter().find(|e| e.name == d.0).ok_or_else(|| ("definition-missing-in-generated-code".to_string(), format!("{}: no item with an #[asn] attribute in the generated file", d.0)))?;
        let re_model = Model { name: rust.name.clone(), imports: rust.imports.clone(), definitions: vec![ex.definition.clone()], ..Default::default() };
        let re = catch(|| re_model.to_rust_keep_names()).map_err(|p| ("reparsed-to_rust-panics".to_string(), format!("{}: to_rust of the re-parsed definition panicked: {p}", d.0)))?;
        let Some(back) = re.definitions.iter().find(|x| x.0 == d.0) else {
            return Err(("definition-renamed".into(), format!("{}: the re-parsed model has {:?}", d.0, re.definitions.iter().map(|x| x.0.clone()).collect::<Vec<_>>())));
        };
        if !equivalent(d, back) {
            let a = format!("{:?}", d.1);
            let b = format!("{:?}", back.1);
            let first = a.chars().zip(b.chars()).position(|(x, y)| x != y).unwrap_or(a.len().min(b.len()));
            let from = first.saturating_sub(60);
            let clip = |s: &str| s.chars().skip(from).take(160).collect::<String>();
            return Err((format!("model-differs:{}", kind_of(&d.1)), format!("{}: generated `#[asn({})]` reads back as a different Rust model: started from …{}… read back …{}…", d.0, ex.attr, clip(&a), clip(&b))));
        }
    }
    Ok("inverted")
}

const RULE: &str = "part a: generated front-end-profile modules (proptest) -> resolve -> to_rust = M; the file emitted by the code generator (proc_macro::asn_to_rust) is parsed with syn and every item carrying #[asn(..)] is read back with proc_macro::parse_asn_definition; to_rust(re-parsed) must equal the definition of M (Definition<Rust>: PartialEq), modulo the macro's derived default tag of an untagged CHOICE. Non-trivial: >= 2 definitions or a definition with constraints / tags / defaults; distinct = hash of the text.";

pub fn run(ctx: Ctx) -> i32 {
    let report = Report::new(ctx.clone(), RULE);
    let replay = |c: &J| -> Result<(), Fail> {
        if c["part"].as_str() != Some("a") {
            return Ok(());
        }
        check_text(c["text"].as_str().unwrap_or("")).map(|_| ())
    };
    if let Some(path) = &ctx.replay {
        let j = read_replay(path);
        report.eval(1);
        match replay(&j["case"]) {
            Ok(()) => println!("replay: case passes"),
            Err((key, msg)) => {
                report.fail(&format!("a:{key}"), &msg, j["case"].clone());
            }
        }
        return report.finish();
    }
    let tier = ctx.tier;
    let shards = 64u64;
    let cases = tier.pick(80u32, 3_000u32);
    let bad = run_in_workers(&report, 16, std::time::Duration::from_secs(tier.pick(600, 7200)), &|report: &Report| {
        report.ctx.my_shards(shards).par_iter().for_each(|&shard| {
            if report.too_many_violations() {
                return;
            }
            let strat = frontend_module_strategy(2, 4);
            let mut runner = report.ctx.runner("c08", shard, cases);
            let mut local = Local::default();
            let failed = std::cell::Cell::new(false);
            let cell = std::cell::RefCell::new(&mut local);
            let result = runner.run(&strat, |m: Module| {
                let text = module_text(&m);
                let res = check_text(&text);
                if !failed.get() {
                    let mut l = cell.borrow_mut();
                    l.eval();
                    if let Ok(what) = &res {
                        l.class(&format!("a:{what}"));
                        if *what == "inverted" {
                            l.nontrivial(hash_of(&text));
                            if l.samples.len() < 1 && text.len() < 600 {
                                l.sample(json!({"part": "a", "text": text}));
                            }
                        }
                    }
                }
                res.map(|_| ()).map_err(|(key, msg)| {
                    failed.set(true);
                    TestCaseError::fail(format!("{key}\u{1}{msg}"))
                })
            });
            if let Err(proptest::test_runner::TestError::Fail(reason, m)) = result {
                let r = reason.message().to_string();
                let (key, msg) = r.split_once('\u{1}').unwrap_or(("unknown", &r));
                report.fail(&format!("a:{key}"), msg, json!({"part": "a", "module": serde_json::to_value(&m).unwrap(), "text": module_text(&m)}));
            }
            report.merge_local(&mut local);
        });
    });
    dead_workers_are_infra(&report, &bad);
    if report.class_count("a:inverted") == 0 && report.violation_count() == 0 {
        report.infra("no module was inverted");
    }
    report.finish()
}
