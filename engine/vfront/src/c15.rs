//! C15 — the Rust type chosen for an INTEGER can hold every permitted value, is the narrowest
//! such standard type, and the generated min/max accessors return the declared bounds.

use crate::front::*;
use asn1rs_model::generate::rust::RustCodeGenerator;
use asn1rs_model::generate::Generator;
use asn1rs_model::rust::{Rust, RustType};
use rayon::prelude::*;
use serde_json::{json, Value as J};
use vcore::harness::*;

type Fail = (String, String);

#[derive(Clone, Debug, PartialEq, Eq, Hash)]
pub struct Constraint {
    /// None = MIN / MAX
    pub lb: Option<i64>,
    pub ub: Option<i64>,
    pub ext: bool,
    /// no constraint at all
    pub none: bool,
}

impl Constraint {
    fn asn1(&self) -> String {
        if self.none {
            return "INTEGER".into();
        }
        format!("INTEGER ( {} .. {}{} )", self.lb.map(|v| v.to_string()).unwrap_or_else(|| "MIN".into()), self.ub.map(|v| v.to_string()).unwrap_or_else(|| "MAX".into()), if self.ext { " , ..." } else { "" })
    }
}

/// (type name, min, max) the property demands
pub fn expected_type(c: &Constraint) -> Vec<&'static str> {
    let whole = c.none || matches!((c.lb, c.ub), (None, None) | (Some(0), None)) || (c.lb == Some(0) && c.ub == Some(i64::MAX)) || (c.lb.is_none() && c.ub == Some(i64::MAX));
    if whole {
        // unconstrained / (0..MAX) / (MIN..MAX): u64 as the README documents
        return vec!["u64"];
    }
    if c.ext {
        // "Extensible ranges map to 64-bit types so out-of-root values are representable"
        return match (c.lb, c.ub) {
            (Some(l), _) if l >= 0 => vec!["u64"],
            // a root with negative values needs i64; a root that is entirely non-negative may use either
            (Some(_), _) => vec!["i64"],
            (None, _) => vec!["i64"],
        };
    }
    match (c.lb, c.ub) {
        (Some(l), Some(u)) => {
            let (l, u) = (l as i128, u as i128);
            if l >= 0 {
                if u <= u8::MAX as i128 {
                    vec!["u8"]
                } else if u <= u16::MAX as i128 {
                    vec!["u16"]
                } else if u <= u32::MAX as i128 {
                    vec!["u32"]
                } else {
                    vec!["u64"]
                }
            } else if l >= i8::MIN as i128 && u <= i8::MAX as i128 {
                vec!["i8"]
            } else if l >= i16::MIN as i128 && u <= i16::MAX as i128 {
                vec!["i16"]
            } else if l >= i32::MIN as i128 && u <= i32::MAX as i128 {
                vec!["i32"]
            } else {
                vec!["i64"]
            }
        }
        (Some(l), None) => {
            if l >= 0 {
                vec!["u64"]
            } else {
                vec!["i64"]
            }
        }
        // every negative value is permitted
        (None, Some(_)) => vec!["i64"],
        (None, None) => vec!["u64"],
    }
}

fn rust_type_name(t: &RustType) -> (String, Option<(i128, i128)>) {
    match t {
        RustType::I8(r) => ("i8".into(), Some((*r.min() as i128, *r.max() as i128))),
        RustType::U8(r) => ("u8".into(), Some((*r.min() as i128, *r.max() as i128))),
        RustType::I16(r) => ("i16".into(), Some((*r.min() as i128, *r.max() as i128))),
        RustType::U16(r) => ("u16".into(), Some((*r.min() as i128, *r.max() as i128))),
        RustType::I32(r) => ("i32".into(), Some((*r.min() as i128, *r.max() as i128))),
        RustType::U32(r) => ("u32".into(), Some((*r.min() as i128, *r.max() as i128))),
        RustType::I64(r) => ("i64".into(), Some((*r.min() as i128, *r.max() as i128))),
        RustType::U64(r) => ("u64".into(), match (r.min(), r.max()) {
            (Some(a), Some(b)) => Some((*a as i128, *b as i128)),
            _ => None,
        }),
        RustType::Option(inner) | RustType::Default(inner, _) => rust_type_name(inner),
        other => (format!("{other:?}"), None),
    }
}

fn type_range(name: &str) -> (i128, i128) {
    match name {
        "u8" => (0, u8::MAX as i128),
        "u16" => (0, u16::MAX as i128),
        "u32" => (0, u32::MAX as i128),
        "u64" => (0, u64::MAX as i128),
        "i8" => (i8::MIN as i128, i8::MAX as i128),
        "i16" => (i16::MIN as i128, i16::MAX as i128),
        "i32" => (i32::MIN as i128, i32::MAX as i128),
        _ => (i64::MIN as i128, i64::MAX as i128),
    }
}

/// One module with many definitions: `T<i> ::= INTEGER (..)` and one SEQUENCE with a field per constraint.
pub fn check_batch(cs: &[Constraint]) -> Vec<(usize, Fail)> {
    let mut text = String::from("Ints DEFINITIONS AUTOMATIC TAGS ::= BEGIN\n");
    for (i, c) in cs.iter().enumerate() {
        text.push_str(&format!("T{i} ::= {}\n", c.asn1()));
    }
    text.push_str("Rec ::= SEQUENCE {\n");
    for (i, c) in cs.iter().enumerate() {
        text.push_str(&format!("  f{i} {}{}\n", c.asn1(), if i + 1 < cs.len() { "," } else { "" }));
    }
    text.push_str("}\nEND\n");
    let mut fails = Vec::new();
    let model = match parse_and_resolve(&text) {
        Ok(m) => m,
        Err(e) => {
            // find the culprit by itself
            if cs.len() > 1 {
                for (i, c) in cs.iter().enumerate() {
                    for (_, f) in check_batch(std::slice::from_ref(c)) {
                        fails.push((i, f));
                    }
                }
                return fails;
            }
            fails.push((0, ("front-end-rejects".to_string(), format!("{}: rejected by the front end: {e:?}", cs[0].asn1()))));
            return fails;
        }
    };
    let rust = match catch(|| model.to_rust()) {
        Ok(r) => r,
        Err(p) => {
            if cs.len() > 1 {
                for (i, c) in cs.iter().enumerate() {
                    for (_, f) in check_batch(std::slice::from_ref(c)) {
                        fails.push((i, f));
                    }
                }
                return fails;
            }
            fails.push((0, ("to_rust-panic".to_string(), format!("{}: to_rust panicked: {p}", cs[0].asn1()))));
            return fails;
        }
    };
    // generated source: *_min / *_max bodies
    let generated = catch(|| {
        let mut g = RustCodeGenerator::default();
        g.add_model(rust.clone());
        g.to_string()
    });
    let source: String = match generated {
        Ok(Ok(files)) => files.into_iter().map(|(_, s)| s).collect::<Vec<_>>().join("\n"),
        _ => String::new(),
    };
    let fn_body = |owner: &str, name: &str| -> Option<(String, String)> {
        // impl <owner> { ... pub const fn <name>() -> <ty> {\n        <value>\n    }
        let impl_pos = source.find(&format!("impl {owner} {{"))?;
        let rest = &source[impl_pos..];
        let pat = format!("pub const fn {name}() -> ");
        let p = rest.find(&pat)?;
        let after = &rest[p + pat.len()..];
        let brace = after.find('{')?;
        let ty = after[..brace].trim().to_string();
        let end = after.find('}')?;
        Some((ty, after[brace + 1..end].trim().replace('_', "")))
    };
    // value references typed by the same constraints, in a module of their own (a rejection there is not
    // this property's subject: the position is then skipped)
    let consts = {
        let mut t = String::from("Consts DEFINITIONS AUTOMATIC TAGS ::= BEGIN\n");
        for (i, c) in cs.iter().enumerate() {
            let v = c.lb.or(c.ub).unwrap_or(0);
            t.push_str(&format!("v{i} {} ::= {v}\n", c.asn1()));
        }
        t.push_str("END\n");
        match catch(|| parse_and_resolve(&t).ok().map(|m| m.to_rust())) {
            Ok(Some(m)) => Some(m),
            _ => None,
        }
    };
    for (i, c) in cs.iter().enumerate() {
        let want = expected_type(c);
        // tuple struct T<i> and field f<i> of Rec
        let mut observed: Vec<(String, RustType)> = Vec::new();
        for d in &rust.definitions {
            match &d.1 {
                Rust::TupleStruct { r#type, .. } if d.0 == format!("T{i}") => observed.push((format!("T{i}"), r#type.clone())),
                Rust::Struct { fields, .. } if d.0 == "Rec" => {
                    if let Some(f) = fields.iter().find(|f| f.name() == format!("f{i}")) {
                        observed.push((format!("Rec.f{i}"), f.r#type().clone()));
                    }
                }
                _ => {}
            }
        }
        if observed.len() != 2 {
            fails.push((i, ("harness:lookup".to_string(), format!("{}: definitions not found in the Rust model", c.asn1()))));
            continue;
        }
        for (place, t) in &observed {
            let (name, bounds) = rust_type_name(t);
            let what = format!("{} ({place})", c.asn1());
            // "wide enough and of the right signedness to represent every value the constraint permits (within 64 bits)"
            let (tlo, thi) = type_range(&name);
            let need_lo = c.lb.map(|v| v as i128).unwrap_or(if c.none || (c.lb.is_none() && c.ub.is_none()) || c.ub == Some(i64::MAX) { 0 } else { i64::MIN as i128 });
            let need_hi = c.ub.map(|v| v as i128).unwrap_or(i64::MAX as i128);
            let documented_u64 = want == vec!["u64"] && (c.none || c.lb.is_none());
            if !documented_u64 && (need_lo < tlo || need_hi > thi) {
                fails.push((i, (format!("type-too-narrow:{}", shape(c)), format!("{what}: Rust type {name} cannot hold every permitted value ({need_lo}..{need_hi})"))));
                continue;
            }
            if !want.contains(&name.as_str()) {
                fails.push((i, (format!("type-not-narrowest:{}", shape(c)), format!("{what}: Rust type is {name}, expected {}", want.join(" or ")))));
                continue;
            }
            // the bounds recorded in the Rust model equal the declared ones
            if let (Some((lo, hi)), Some(l), Some(u)) = (bounds, c.lb, c.ub) {
                if lo != l as i128 || hi != u as i128 {
                    fails.push((i, (format!("model-bounds:{}", shape(c)), format!("{what}: the Rust model records {lo}..{hi}"))));
                    continue;
                }
            }
        }
        // third position: a module-level INTEGER value reference typed by the same constraint (the type of
        // the generated `pub const` is chosen by a separate mapping); judged only by "can hold every permitted
        // value" and "extensible ranges map to 64-bit types"
        if let Some(vr) = consts.as_ref().and_then(|m| m.value_references.iter().find(|v| v.name.replace('_', "").eq_ignore_ascii_case(&format!("v{i}")))) {
            let (name, _) = rust_type_name(&vr.role);
            if matches!(name.as_str(), "i8" | "i16" | "i32" | "i64" | "u8" | "u16" | "u32" | "u64") {
                let what = format!("{} (value reference v{i})", c.asn1());
                let (tlo, thi) = type_range(&name);
                let need_lo = c.lb.map(|v| v as i128).unwrap_or(if c.none || (c.lb.is_none() && c.ub.is_none()) || c.ub == Some(i64::MAX) { 0 } else { i64::MIN as i128 });
                let need_hi = c.ub.map(|v| v as i128).unwrap_or(i64::MAX as i128);
                let documented_u64 = want == vec!["u64"] && (c.none || c.lb.is_none());
                if !documented_u64 && (need_lo < tlo || need_hi > thi) {
                    fails.push((i, (format!("const-type-too-narrow:{}", shape(c)), format!("{what}: Rust type {name} of the constant cannot hold every permitted value ({need_lo}..{need_hi})"))));
                } else if c.ext && !c.none && name != "i64" && name != "u64" {
                    fails.push((i, (format!("const-type-not-64-bit:{}", shape(c)), format!("{what}: the range is extensible but the constant's Rust type is {name}"))));
                }
            }
        }
        // generated accessors
        for (owner, fname) in [(format!("T{i}"), "value".to_string()), ("Rec".to_string(), format!("f{i}"))] {
            for (suffix, declared) in [("min", c.lb), ("max", c.ub)] {
                if let Some((ty, body)) = fn_body(&owner, &format!("{fname}_{suffix}")) {
                    let want_ty = rust_type_name(&observed[0].1).0;
                    if ty != want_ty {
                        fails.push((i, ("accessor-type".to_string(), format!("{}: {owner}::{fname}_{suffix}() returns {ty}, the field is {want_ty}", c.asn1()))));
                    }
                    if let Some(d) = declared {
                        let expected = d.to_string();
                        // the body is judged by its value, not by its spelling: a literal, or a limit
                        // of a Rust integer type written symbolically (`i16::MIN`, `u8::MAX`, `Self`-less)
                        let symbolic = |b: &str| -> Option<i128> {
                            let b = b.replace(' ', "");
                            let (t, which) = b.split_once("::")?;
                            let (lo, hi): (i128, i128) = match t {
                                "i8" => (i8::MIN as i128, i8::MAX as i128),
                                "i16" => (i16::MIN as i128, i16::MAX as i128),
                                "i32" => (i32::MIN as i128, i32::MAX as i128),
                                "i64" => (i64::MIN as i128, i64::MAX as i128),
                                "u8" => (0, u8::MAX as i128),
                                "u16" => (0, u16::MAX as i128),
                                "u32" => (0, u32::MAX as i128),
                                "u64" => (0, u64::MAX as i128),
                                _ => return None,
                            };
                            match which {
                                "MIN" => Some(lo),
                                "MAX" => Some(hi),
                                _ => None,
                            }
                        };
                        // i64::MIN cannot be written as a literal: accept the usual spellings
                        let ok = body == expected
                            || symbolic(&body) == Some(d as i128)
                            || (d == i64::MIN && (body.contains("9223372036854775807-1") || body.contains("9223372036854775807 - 1")));
                        if !ok {
                            fails.push((i, (format!("accessor-value:{suffix}"), format!("{}: {owner}::{fname}_{suffix}() returns {body}, declared bound is {expected}", c.asn1()))));
                        }
                    }
                }
            }
        }
    }
    fails
}

fn shape(c: &Constraint) -> &'static str {
    match (c.none, c.lb, c.ub, c.ext) {
        (true, ..) => "unconstrained",
        (_, None, None, false) => "MIN..MAX",
        (_, None, Some(_), false) => "MIN..ub",
        (_, Some(_), None, false) => "lb..MAX",
        (_, Some(_), Some(_), false) => "lb..ub",
        (_, _, _, true) => "extensible",
    }
}

/// Upper bounds beyond i64 (2^63 .. 2^64): asn1rs documents a 64-bit (i64) design and refuses such
/// ranges. A refusal is fine; if a range is accepted, the type must hold it (u64 for lb >= 0,
/// nothing for lb < 0 or 2^64) and the model bounds must be the declared ones.
pub fn beyond_i64_cases() -> Vec<(String, Result<&'static str, Fail>)> {
    let mut out = Vec::new();
    let uppers: [(&str, i128); 4] = [("9223372036854775808", 1i128 << 63), ("9223372036854775809", (1i128 << 63) + 1), ("18446744073709551615", u64::MAX as i128), ("18446744073709551616", 1i128 << 64)];
    let lowers: [(&str, i128); 5] = [("0", 0), ("5", 5), ("-5", -5), ("MIN", i64::MIN as i128), ("9223372036854775807", i64::MAX as i128)];
    for (ut, u) in uppers {
        for (lt, l) in lowers {
            for ext in [false, true] {
                let asn = format!("INTEGER ({lt}..{ut}{})", if ext { ", ..." } else { "" });
                let text = format!("Big DEFINITIONS AUTOMATIC TAGS ::= BEGIN\nT ::= {asn}\nEND\n");
                let verdict = (|| -> Result<&'static str, Fail> {
                    let model = match parse_and_resolve(&text) {
                        Ok(m) => m,
                        Err(_) => return Ok("beyond-i64:refused"),
                    };
                    let rust = catch(|| model.to_rust()).map_err(|p| ("beyond-i64:to_rust-panic".to_string(), format!("{asn}: to_rust panicked: {p}")))?;
                    let ty = rust.definitions.iter().find_map(|d| match &d.1 {
                        Rust::TupleStruct { r#type, .. } if d.0 == "T" => Some(r#type.clone()),
                        _ => None,
                    });
                    let Some(ty) = ty else { return Err(("harness:lookup".into(), format!("{asn}: T not found"))) };
                    let (name, recorded) = rust_type_name(&ty);
                    let (lo, hi) = type_range(&name);
                    if l < lo || u > hi {
                        return Err(("beyond-i64:type-too-narrow".into(), format!("{asn} is accepted with the Rust type {name}, which cannot hold every permitted value ({l}..{u})")));
                    }
                    if let Some((_, rec_hi)) = recorded {
                        if !ext && rec_hi != u {
                            return Err(("beyond-i64:model-bounds".into(), format!("{asn} is accepted, but the Rust model records the upper bound {rec_hi}")));
                        }
                    } else if !ext && !(l == 0 && u == u64::MAX as i128) {
                        return Err(("beyond-i64:model-bounds".into(), format!("{asn} is accepted as unconstrained {name}: the declared bounds are lost")));
                    }
                    Ok("beyond-i64:accepted-and-representable")
                })();
                out.push((asn, verdict));
            }
        }
    }
    out
}

pub fn family() -> Vec<i64> {
    let mut v: Vec<i128> = (-20..=20).collect();
    for k in 0..=63u32 {
        let p = 1i128 << k;
        for d in [-1i128, 0, 1] {
            v.push(p + d);
            v.push(-p + d);
        }
    }
    v.retain(|x| *x >= i64::MIN as i128 && *x <= i64::MAX as i128);
    v.sort();
    v.dedup();
    v.into_iter().map(|x| x as i64).collect()
}

const RULE: &str = "bounded-exhaustive: all ordered pairs (min <= max) from B = {0, +-1, +-2^k, +-2^k+-1 : k <= 63} U [-20, 20] as INTEGER (min..max) and (min..max, ...), every b in B as (b..MAX), (MIN..b) and their extensible forms, plus INTEGER, (MIN..MAX) and (MIN..MAX, ...); each as top-level definition and as SEQUENCE field (500 per module), pushed through tokenizer, parser, resolver, to_rust and RustCodeGenerator. Oracle (own function): finite non-extensible -> the narrowest of u8/u16/u32/u64 (lb >= 0) or i8/i16/i32/i64 containing [lb, ub]; (lb..MAX) -> u64 / i64 by sign of lb; (MIN..ub) -> i64; unconstrained / (0..MAX) / (MIN..MAX) -> u64 as the README documents; extensible -> a 64-bit type containing the root; bounds in the Rust model and the generated *_min()/*_max() bodies equal the declared bounds. Plus upper bounds beyond i64 (2^63, 2^63+1, 2^64-1, 2^64) with five lower bounds: refused, or accepted with a type and model bounds that hold the range. Non-trivial: every constraint except (x..x) duplicates; distinct = the constraint.";

pub fn run(ctx: Ctx) -> i32 {
    let report = Report::new(ctx.clone(), RULE);
    report.assumption("no 64-bit type holds both halves of an unconstrained INTEGER: the documented choice (u64) is the oracle there");
    let replay = |c: &J| -> Result<(), Fail> {
        if c["beyond_i64"].as_bool() == Some(true) {
            let want = c["asn1"].as_str().unwrap_or("");
            return match beyond_i64_cases().into_iter().find(|(a, _)| a == want) {
                Some((_, v)) => v.map(|_| ()),
                None => Err(("harness:replay".into(), "unknown beyond-i64 case".into())),
            };
        }
        let con = Constraint { lb: c["lb"].as_str().and_then(|s| s.parse().ok()), ub: c["ub"].as_str().and_then(|s| s.parse().ok()), ext: c["ext"].as_bool().unwrap_or(false), none: c["none"].as_bool().unwrap_or(false) };
        match check_batch(&[con]).into_iter().next() {
            None => Ok(()),
            Some((_, f)) => Err(f),
        }
    };
    if let Some(path) = &ctx.replay {
        let j = read_replay(path);
        report.eval(1);
        match replay(&j["case"]) {
            Ok(()) => println!("replay: case passes"),
            Err((key, msg)) => {
                report.fail(&key, &msg, j["case"].clone());
            }
        }
        return report.finish();
    }
    report.run_probes(&replay);
    let fam = family();
    let mut all: Vec<Constraint> = Vec::new();
    all.push(Constraint { lb: None, ub: None, ext: false, none: true });
    for ext in [false, true] {
        all.push(Constraint { lb: None, ub: None, ext, none: false });
        for &a in &fam {
            all.push(Constraint { lb: Some(a), ub: None, ext, none: false });
            all.push(Constraint { lb: None, ub: Some(a), ext, none: false });
            for &b in &fam {
                if a <= b {
                    all.push(Constraint { lb: Some(a), ub: Some(b), ext, none: false });
                }
            }
        }
    }
    // open known finding: (MIN..ub) is mapped like (0..ub) - pinned by rust::tests::test_value_reference_to_rust
    let before = all.len();
    if report.known.is_open("C15", "min-to-ub-unsigned") {
        all.retain(|c| !(c.lb.is_none() && c.ub.is_some() && c.ub != Some(i64::MAX) && !c.ext && !c.none));
    }
    report.extra("excluded_by_known_findings", json!(before - all.len()));
    let batches: Vec<&[Constraint]> = all.chunks(500).collect();
    let bad = run_in_workers(&report, 16, std::time::Duration::from_secs(1800), &|report: &Report| {
        report.ctx.my_shards(batches.len() as u64).par_iter().for_each(|&k| {
            if report.too_many_violations() {
                return;
            }
            let batch = batches[k as usize];
            let mut local = Local::default();
            let fails = check_batch(batch);
            for c in batch {
                local.eval();
                if c.lb.is_none() || c.lb != c.ub {
                    local.nontrivial(hash_of(c));
                }
                local.class(shape(c));
            }
            if k % 40 == 0 {
                local.sample(json!({"constraint": batch[batch.len() / 2].asn1(), "expected_rust_type": expected_type(&batch[batch.len() / 2])}));
            }
            for (i, (key, msg)) in fails {
                let c = &batch[i];
                report.fail(&key, &msg, json!({"asn1": c.asn1(), "lb": c.lb.map(|v| v.to_string()), "ub": c.ub.map(|v| v.to_string()), "ext": c.ext, "none": c.none}));
            }
            report.merge_local(&mut local);
        });
    });
    dead_workers_are_infra(&report, &bad);
    if ctx.worker.is_none() {
        for (asn, verdict) in beyond_i64_cases() {
            report.eval(1);
            match verdict {
                Ok(class) => report.class(class, 1),
                Err((key, msg)) => {
                    report.fail(&key, &msg, json!({"asn1": asn, "beyond_i64": true}));
                }
            }
        }
    }
    report.exhaustive(&format!("B x B with |B| = {} ({} constraints)", fam.len(), all.len()));
    report.finish()
}
