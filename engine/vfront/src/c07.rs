//! C07 — parsing preserves every declared element of an ASN.1 module.

use crate::front::*;
use proptest::prelude::*;
use rayon::prelude::*;
use serde_json::{json, Value as J};
use vcore::canon::{canon, diff};
use vcore::genfront::frontend_module_strategy;
use vcore::harness::*;
use vcore::layout::*;
use vcore::print::{module_tokens, render_plain};
use vcore::schema::*;

type Fail = (String, String);

/// which construct differs: used as the root-cause key
fn diff_class(want: &vcore::canon::Canon, got: &vcore::canon::Canon) -> String {
    if want.name != got.name {
        return "module-name".into();
    }
    if want.oid != got.oid {
        return "module-oid".into();
    }
    if want.imports != got.imports {
        return "imports".into();
    }
    if want.values != got.values {
        return "value-assignments".into();
    }
    if want.defs.len() != got.defs.len() {
        return "definition-count".into();
    }
    for (a, b) in want.defs.iter().zip(&got.defs) {
        if a.name != b.name {
            return "definition-name".into();
        }
        if a.tag != b.tag {
            return "definition-tag".into();
        }
        if a.ty != b.ty {
            return format!("type:{}", type_diff(&a.ty, &b.ty));
        }
    }
    "none".into()
}

fn type_diff(a: &Type, b: &Type) -> String {
    match (a, b) {
        (Type::Integer { range: r1, named: n1 }, Type::Integer { range: r2, named: n2 }) => {
            if n1 != n2 {
                "INTEGER-named-numbers".into()
            } else if r1 != r2 {
                "INTEGER-range".into()
            } else {
                "INTEGER".into()
            }
        }
        (Type::Enumerated { items: i1, root: r1 }, Type::Enumerated { items: i2, root: r2 }) => {
            if r1 != r2 {
                "ENUMERATED-extension-marker".into()
            } else if i1 != i2 {
                "ENUMERATED-items".into()
            } else {
                "ENUMERATED".into()
            }
        }
        (Type::BitString { size: s1, named: n1 }, Type::BitString { size: s2, named: n2 }) => {
            if n1 != n2 {
                "BIT-STRING-named-bits".into()
            } else if s1 != s2 {
                "BIT-STRING-size".into()
            } else {
                "BIT-STRING".into()
            }
        }
        (Type::OctetString { .. }, Type::OctetString { .. }) => "OCTET-STRING-size".into(),
        (Type::Str { cs: c1, .. }, Type::Str { cs: c2, .. }) => {
            if c1 != c2 {
                "string-charset".into()
            } else {
                "string-size".into()
            }
        }
        (Type::Sequence(f1), Type::Sequence(f2)) | (Type::Set(f1), Type::Set(f2)) => {
            if f1.root != f2.root {
                return "SEQUENCE-extension-marker".into();
            }
            if f1.comps.len() != f2.comps.len() {
                return "SEQUENCE-component-count".into();
            }
            for (x, y) in f1.comps.iter().zip(&f2.comps) {
                if x.name != y.name {
                    return "component-name".into();
                }
                if x.tag != y.tag {
                    return "component-tag".into();
                }
                if x.presence != y.presence {
                    return "component-presence".into();
                }
                if x.ty != y.ty {
                    return type_diff(&x.ty, &y.ty);
                }
            }
            "SEQUENCE".into()
        }
        (Type::SequenceOf { elem: e1, size: s1 }, Type::SequenceOf { elem: e2, size: s2 }) | (Type::SetOf { elem: e1, size: s1 }, Type::SetOf { elem: e2, size: s2 }) => {
            if s1 != s2 {
                "list-size".into()
            } else {
                type_diff(e1, e2)
            }
        }
        (Type::Choice { alts: a1, root: r1 }, Type::Choice { alts: a2, root: r2 }) => {
            if r1 != r2 {
                return "CHOICE-extension-marker".into();
            }
            if a1.len() != a2.len() {
                return "CHOICE-alternative-count".into();
            }
            for (x, y) in a1.iter().zip(a2) {
                if x.name != y.name {
                    return "alternative-name".into();
                }
                if x.tag != y.tag {
                    return "alternative-tag".into();
                }
                if x.ty != y.ty {
                    return type_diff(&x.ty, &y.ty);
                }
            }
            "CHOICE".into()
        }
        (a, b) if a.kind() != b.kind() => format!("kind-{}-vs-{}", a.kind().replace(' ', "-"), b.kind().replace(' ', "-")),
        _ => "other".into(),
    }
}

fn has_marker_first(m: &Module) -> bool {
    fn walk(t: &Type) -> bool {
        match t {
            Type::Sequence(f) | Type::Set(f) => f.root == Some(0) || f.comps.iter().any(|c| walk(&c.ty)),
            Type::SequenceOf { elem, .. } | Type::SetOf { elem, .. } => walk(elem),
            Type::Choice { alts, .. } => alts.iter().any(|a| walk(&a.ty)),
            _ => false,
        }
    }
    m.defs().any(|d| walk(&d.ty))
}

pub fn check_text(m: &Module, text: &str) -> Result<(), Fail> {
    let want = canon(m);
    let model = match parse_and_resolve(text) {
        Ok(model) => model,
        // legal ASN.1 that the model cannot express (marker before the first component): an
        // error is fine, a silently different model is not
        Err(FrontError::Parse(_)) if has_marker_first(m) => return Ok(()),
        Err(FrontError::TokenizerPanic(p)) | Err(FrontError::ParsePanic(p)) | Err(FrontError::ResolvePanic(p)) => return Err(("front-end-panic".into(), format!("the front end panicked on a valid module: {p}"))),
        Err(FrontError::Parse(e)) => return Err(("valid-module-rejected:parse".into(), format!("a module of the supported subset is rejected by the parser: {e}"))),
        Err(FrontError::Resolve(e)) => return Err(("valid-module-rejected:resolve".into(), format!("a module of the supported subset is rejected by the resolver: {e}"))),
    };
    let got = canon_of(&model);
    if got != want {
        return Err((format!("model-differs:{}", diff_class(&want, &got)), format!("the parsed model differs from the declared module: {}", diff(&want, &got))));
    }
    Ok(())
}

fn features(m: &Module) -> Vec<&'static str> {
    let mut f = Vec::new();
    if m.oid.is_some() {
        f.push("module-oid");
    }
    if !m.imports.is_empty() {
        f.push("imports");
    }
    if m.values().count() > 0 {
        f.push("value-assignments");
    }
    if has_marker_first(m) {
        f.push("marker-before-first-component");
    }
    fn walk(t: &Type, f: &mut Vec<&'static str>) {
        match t {
            Type::Integer { range, named } => {
                if range.is_some() {
                    f.push("integer-range");
                }
                if range.as_ref().map(|r| r.lb.as_ref().map(|n| n.via.is_some()).unwrap_or(false) || r.ub.as_ref().map(|n| n.via.is_some()).unwrap_or(false)).unwrap_or(false) {
                    f.push("reference-in-range");
                }
                if !named.is_empty() {
                    f.push("named-numbers");
                }
            }
            Type::Enumerated { items, root } => {
                f.push("enumerated");
                if root.is_some() {
                    f.push("enumerated-extension");
                }
                if items.iter().any(|i| i.1.is_some()) {
                    f.push("enumerated-numbers");
                }
            }
            Type::BitString { size, named } => {
                if size.is_some() {
                    f.push("size");
                }
                if !named.is_empty() {
                    f.push("named-bits");
                }
            }
            Type::OctetString { size } | Type::Str { size, .. } => {
                if let Some(s) = size {
                    f.push("size");
                    if s.ext {
                        f.push("size-extensible");
                    }
                    if s.lb.via.is_some() || s.ub.as_ref().map(|u| u.via.is_some()).unwrap_or(false) {
                        f.push("reference-in-size");
                    }
                }
            }
            Type::Sequence(fl) | Type::Set(fl) => {
                f.push(if matches!(t, Type::Set(_)) { "set" } else { "sequence" });
                if fl.root.is_some() {
                    f.push("sequence-extension");
                }
                for c in &fl.comps {
                    if c.tag.is_some() {
                        f.push("component-tag");
                    }
                    match &c.presence {
                        Presence::Optional => f.push("optional"),
                        Presence::Default(d) => {
                            f.push("default");
                            if d.via.is_some() {
                                f.push("reference-in-default");
                            }
                        }
                        _ => {}
                    }
                    walk(&c.ty, f);
                }
            }
            Type::SequenceOf { elem, size } | Type::SetOf { elem, size } => {
                f.push("list");
                if size.is_some() {
                    f.push("list-size");
                }
                walk(elem, f);
            }
            Type::Choice { alts, root } => {
                f.push("choice");
                if root.is_some() {
                    f.push("choice-extension");
                }
                for a in alts {
                    if a.tag.is_some() {
                        f.push("alternative-tag");
                    }
                    walk(&a.ty, f);
                }
            }
            Type::Ref(_) => f.push("type-reference"),
            _ => {}
        }
    }
    for d in m.defs() {
        if d.tag.is_some() {
            f.push("definition-tag");
        }
        walk(&d.ty, &mut f);
    }
    f.sort();
    f.dedup();
    f
}

const RULE: &str = "abstract modules from the front-end profile of the grammar-based generator (proptest, shrinkable): definitions of every supported kind nested up to 2 levels, tags of the four classes on definitions / components / alternatives, INTEGER ranges incl. MIN/MAX and extensibility, named numbers / bits, SIZE constraints incl. MAX and extensibility, ENUMERATED numbers and extension markers, OPTIONAL / DEFAULT literals, value assignments of every literal kind, value references in ranges / sizes / defaults, IMPORTS with and without OID, module OIDs, identifier variety; each module is printed in the plain layout and in one random whitespace layout. Oracle: canon(resolve(parse(tokenize(text)))) == canon(A), where canon lists every declared element in order and applies only the documented normalisations. Non-trivial: >= 2 definitions, or one definition with >= 2 of {tag, size, range, extension marker, default, nesting}; distinct = hash of the text.";

pub fn run(ctx: Ctx) -> i32 {
    let report = Report::new(ctx.clone(), RULE);
    report.assumption("keywords are printed in upper case; comment layouts are C13's subject; not generated as valid input: EXPORTS, IMPLICIT/EXPLICIT after a tag, version brackets, a second '...', constraint unions, FROM alphabets, REAL/OID/time types, parameterisation, recursion, WITH COMPONENTS, empty cstrings, SIZE(0..MAX, ...), single-value INTEGER constraints '(5)', an extension marker before the first component (the model cannot express it)");
    let replay = |c: &J| -> Result<(), Fail> {
        let m: Module = serde_json::from_value(c["module"].clone()).map_err(|e| ("harness:replay".to_string(), e.to_string()))?;
        check_text(&m, c["text"].as_str().unwrap_or(""))
    };
    if let Some(path) = &ctx.replay {
        let j = read_replay(path);
        report.eval(1);
        match replay(&j["case"]) {
            Ok(()) => println!("replay: case passes"),
            Err((key, msg)) => {
                report.fail(&key, &msg, j["case"].clone());
            }
        }
        return report.finish();
    }
    report.run_probes(&replay);
    let tier = ctx.tier;
    let shards = 64u64;
    let cases = tier.pick(400u32, 16_000u32);
    let bad = run_in_workers(&report, 16, std::time::Duration::from_secs(tier.pick(600, 7200)), &|report: &Report| {
        report.ctx.my_shards(shards).par_iter().for_each(|&shard| {
            if report.too_many_violations() {
                return;
            }
            let strat = (frontend_module_strategy(2, 5), proptest::collection::vec(whitespace_sep_strategy(), 600));
            let mut runner = report.ctx.runner("c07", shard, cases);
            let mut local = Local::default();
            let failed = std::cell::Cell::new(false);
            let cell = std::cell::RefCell::new(&mut local);
            let texts = |m: &Module, seps: &[Sep]| -> (String, String) {
                let toks = module_tokens(m);
                let plain = render_plain(&toks);
                let (r, _) = render(&items_of(&toks), seps);
                (plain, r.text)
            };
            let result = runner.run(&strat, |(m, seps)| {
                let (plain, laid) = texts(&m, &seps);
                let res = check_text(&m, &plain).and_then(|_| check_text(&m, &laid));
                if !failed.get() {
                    let mut l = cell.borrow_mut();
                    l.eval();
                    l.eval(); // (two texts per module: plain and laid out)
                    if res.is_ok() {
                        let f = features(&m);
                        for x in &f {
                            l.class(x);
                        }
                        if m.defs().count() >= 2 || f.len() >= 3 {
                            l.nontrivial(hash_of(&plain));
                            l.nontrivial(hash_of(&laid));
                        }
                        if l.samples.len() < 1 && plain.len() < 700 && f.len() >= 6 {
                            l.sample(json!({"text": plain, "features": f}));
                        }
                    }
                }
                res.map_err(|(key, msg)| {
                    failed.set(true);
                    TestCaseError::fail(format!("{key}\u{1}{msg}"))
                })
            });
            if let Err(proptest::test_runner::TestError::Fail(reason, (m, seps))) = result {
                let r = reason.message().to_string();
                let (key, msg) = r.split_once('\u{1}').unwrap_or(("unknown", &r));
                let (plain, laid) = texts(&m, &seps);
                let text = if check_text(&m, &plain).is_err() { plain } else { laid };
                report.fail(key, msg, json!({"module": serde_json::to_value(&m).unwrap(), "text": text}));
            }
            report.merge_local(&mut local);
        });
    });
    dead_workers_are_infra(&report, &bad);
    for must in ["imports", "module-oid", "value-assignments", "reference-in-range", "reference-in-size", "reference-in-default", "named-numbers", "named-bits", "enumerated-numbers", "definition-tag", "component-tag", "alternative-tag", "choice-extension", "sequence-extension", "size-extensible"] {
        if report.class_count(must) == 0 && report.violation_count() == 0 {
            report.infra(&format!("generator fault: grammar production {must} never generated"));
        }
    }
    report.finish()
}
