//! .proto generation through the public API
use crate::front::*;
use asn1rs_model::generate::protobuf::ProtobufDefGenerator;
use asn1rs_model::generate::Generator;
use asn1rs_model::protobuf::ToProtobufModel;
use vcore::harness::catch;

pub fn proto_text(asn: &str) -> Result<String, String> {
    let model = parse_and_resolve(asn).map_err(|e| format!("{e:?}"))?;
    catch(|| {
        let rust = model.to_rust();
        let proto = rust.to_protobuf();
        let mut g = ProtobufDefGenerator::default();
        g.add_model(proto);
        g.to_string().map(|files| files.into_iter().map(|(_, c)| c).collect::<Vec<_>>().join("\n")).map_err(|e| format!("{e:?}"))
    })
    .map_err(|p| format!("panic: {p}"))?
}
