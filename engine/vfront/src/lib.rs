//! vfront as a library: the check modules are shared with the fuzz targets (engine/fuzz).
pub mod c07;
pub mod c08;
pub mod c09;
pub mod c12;
pub mod c13;
pub mod c14;
pub mod c15;
pub mod c18a;
pub mod c16a;
pub mod expansion;
pub mod front;
pub mod proto;
