//! C12 — value references and imports resolve exactly like the literals they name.

use crate::front::*;
use asn1rs_model::asn::MultiModuleResolver;
use asn1rs_model::Model;
use proptest::prelude::*;
use rayon::prelude::*;
use serde_json::{json, Value as J};
use vcore::gen::{module_strategy, Profile};
use vcore::genfront::{introduce_references, Rand};
use vcore::harness::*;
use vcore::print::module_text;
use vcore::schema::*;

type Fail = (String, String);

#[derive(Clone, Debug, serde::Serialize, serde::Deserialize)]
pub struct Scenario {
    /// texts of all modules; index 0 is the referencing (main) module
    pub texts: Vec<String>,
    pub main_name: String,
    /// text of the literal variant of the main module
    pub literal: String,
    /// None: positive scenario; Some(why): resolution must fail
    pub negative: Option<String>,
    pub sites_replaced: usize,
    pub placement: Vec<String>,
}

fn parse(text: &str) -> Result<Model<asn1rs_model::asn::Asn<asn1rs_model::resolve::Unresolved>>, String> {
    let tokens = tokenize(text)?;
    catch(|| Model::try_from(tokens)).map_err(|p| format!("parser panicked: {p}"))?.map_err(|e| short(&format!("{e}")))
}

fn permutations(n: usize) -> Vec<Vec<usize>> {
    fn rec(cur: &mut Vec<usize>, used: &mut Vec<bool>, n: usize, out: &mut Vec<Vec<usize>>) {
        if cur.len() == n {
            out.push(cur.clone());
            return;
        }
        for i in 0..n {
            if !used[i] {
                used[i] = true;
                cur.push(i);
                rec(cur, used, n, out);
                cur.pop();
                used[i] = false;
            }
        }
    }
    let mut out = Vec::new();
    rec(&mut Vec::new(), &mut vec![false; n], n, &mut out);
    out
}

pub fn check_scenario(s: &Scenario) -> Result<&'static str, Fail> {
    let literal = match parse_and_resolve(&s.literal) {
        Ok(m) => m,
        Err(_) => return Ok("literal-variant-rejected"),
    };
    let parsed: Vec<_> = match s.texts.iter().map(|t| parse(t)).collect::<Result<Vec<_>, _>>() {
        Ok(p) => p,
        Err(e) => return Err(("valid-module-rejected:parse".into(), format!("a module of the scenario is rejected by the parser: {e}"))),
    };
    let mut outcomes: Vec<(String, Result<asn1rs_model::Model<asn1rs_model::asn::Asn>, String>)> = Vec::new();
    for order in permutations(parsed.len()) {
        let res = catch(|| {
            let mut r = MultiModuleResolver::default();
            for &i in &order {
                r.push(parsed[i].clone());
            }
            r.try_resolve_all()
        });
        let label = format!("load order {:?}", order);
        match res {
            Err(p) => return Err(("resolver-panic".into(), format!("{label}: the resolver panicked: {p}"))),
            Ok(Err(e)) => outcomes.push((label, Err(format!("{e}")))),
            Ok(Ok(models)) => match models.into_iter().find(|m| m.name == literal.name) {
                Some(m) => outcomes.push((label, Ok(m))),
                None => return Err(("harness:main-missing".into(), "the main module is not among the resolved models".into())),
            },
        }
    }
    // the single-module path
    if s.texts.len() == 1 {
        let res = catch(|| parsed[0].try_resolve());
        match res {
            Err(p) => return Err(("resolver-panic".into(), format!("try_resolve panicked: {p}"))),
            Ok(r) => outcomes.push(("Model::try_resolve".into(), r.map_err(|e| format!("{e}")))),
        }
    }
    match &s.negative {
        None => {
            for (label, o) in &outcomes {
                match o {
                    Err(e) => return Err(("resolvable-reference-rejected".into(), format!("{label}: resolution fails although every reference has an assignment in scope: {e}"))),
                    Ok(m) => {
                        if m.definitions != literal.definitions {
                            let a = canon_of(m);
                            let b = canon_of(&literal);
                            let d = a.defs.iter().zip(&b.defs).find(|(x, y)| x != y).map(|(x, y)| format!("{}: {} vs literal {}", x.name, vcore::print::type_text(&x.ty), vcore::print::type_text(&y.ty))).unwrap_or_default();
                            return Err(("resolved-model-differs".into(), format!("{label}: the referencing module resolves to a different model than its literal variant: {d}")));
                        }
                    }
                }
            }
            Ok("resolved-equal")
        }
        Some(why) => {
            for (label, o) in &outcomes {
                if o.is_ok() {
                    return Err((format!("unresolvable-accepted:{}", why.split(':').next().unwrap_or("")), format!("{label}: resolution succeeds although it must fail ({why})")));
                }
            }
            Ok("negative-rejected")
        }
    }
}

/// every fourth scenario: some ranges / sizes become degenerate (`n..n`, written as a range, with
/// and without extension marker) - the normalisations of equal bounds must not depend on whether
/// the bounds are literals or references
fn make_degenerate(m: &mut Module, r: &mut Rand) {
    fn size(s: &mut Option<Size>, r: &mut Rand) {
        if let Some(s) = s {
            if s.ub.is_some() && r.chance(60) {
                s.ub = Some(Num::lit(s.lb.value));
                s.fixed = false;
                s.ext = r.chance(50);
            }
        }
    }
    fn walk(t: &mut Type, r: &mut Rand) {
        match t {
            Type::Integer { range: Some(rg), .. } => {
                if let (Some(lb), Some(_)) = (&rg.lb, &rg.ub) {
                    if r.chance(40) {
                        rg.ub = Some(Num::lit(lb.value));
                        rg.ext = r.chance(50);
                    }
                }
            }
            Type::BitString { size: s, .. } | Type::OctetString { size: s } | Type::Str { size: s, .. } => size(s, r),
            Type::SequenceOf { elem, size: s } | Type::SetOf { elem, size: s } => {
                size(s, r);
                walk(elem, r);
            }
            Type::Sequence(f) | Type::Set(f) => {
                for c in &mut f.comps {
                    // (a DEFAULT must stay inside its type: leave those components alone)
                    if !matches!(c.presence, Presence::Default(_)) {
                        walk(&mut c.ty, r);
                    }
                }
            }
            Type::Choice { alts, .. } => alts.iter_mut().for_each(|a| walk(&mut a.ty, r)),
            _ => {}
        }
    }
    for a in &mut m.body {
        if let Assignment::Type(d) = a {
            walk(&mut d.ty, r);
        }
    }
}

/// builds the scenario from a literal-only module and a salt
pub fn build(base: &Module, salt: u64) -> Scenario {
    let mut r = Rand(salt | 1);
    let mut lit = base.clone();
    if salt % 4 == 0 {
        make_degenerate(&mut lit, &mut r);
    }
    lit.name = "Main-Unit".into();
    // every third scenario: DEFAULT values on components whose type is a reference that cannot be
    // looked up (defined nowhere, or imported from a module that is not loaded) - the literal variant
    // resolves with the type reference left as it is, so the referencing variant has to as well
    let foreign = salt % 3 == 1;
    let foreign_import = foreign && salt % 2 == 0;
    let foreign_def = |vias: [Option<String>; 2]| {
        let [a, b] = vias;
        Def {
            name: "ForeignTyped".into(),
            tag: None,
            ty: Type::Sequence(Fields {
                comps: vec![
                    Comp { name: "plain".into(), tag: None, ty: Type::Boolean, presence: Presence::Mandatory },
                    Comp { name: "count".into(), tag: None, ty: Type::Ref("Foreign-Count".into()), presence: Presence::Default(DefaultVal { lit: Lit::Int(5), via: a }) },
                    Comp { name: "flag".into(), tag: None, ty: Type::Ref("Foreign-Flag".into()), presence: Presence::Default(DefaultVal { lit: Lit::Bool(true), via: b }) },
                ],
                root: None,
            }),
        }
    };
    if foreign {
        lit.body.push(Assignment::Type(foreign_def([None, None])));
        if foreign_import {
            lit.imports.push(Import { symbols: vec!["Foreign-Count".into(), "Foreign-Flag".into()], from: "Absent-Unit".into(), oid: None });
        }
    }
    let literal = module_text(&lit);
    let mut main = lit.clone();
    if foreign {
        main.body.pop();
    }
    let mut assigns = introduce_references(&mut main, &mut r, 60, "");
    if foreign {
        main.body.push(Assignment::Type(foreign_def([Some("foreign-count-default".into()), Some("foreignFlagDefault".into())])));
        assigns.push(ValueAssign { name: "foreign-count-default".into(), ty: ValueType::Integer, lit: Lit::Int(5) });
        assigns.push(ValueAssign { name: "foreignFlagDefault".into(), ty: ValueType::Boolean, lit: Lit::Bool(true) });
    }
    let n_sib = 1 + r.below(3) as usize;
    let negative_kind = if assigns.is_empty() { 0 } else { r.below(11) }; // 0..3 positive
    let mut sib_assigns: Vec<Vec<ValueAssign>> = vec![Vec::new(); n_sib];
    let mut placement = Vec::new();
    let mut local_before = Vec::new();
    let mut local_after = Vec::new();
    for va in assigns.iter().cloned() {
        match r.below(4) {
            0 => {
                placement.push("local-before".to_string());
                local_before.push(va);
            }
            1 => {
                placement.push("local-after".to_string());
                local_after.push(va);
            }
            _ => {
                let k = r.below(n_sib as u64) as usize;
                placement.push(format!("sibling{k}"));
                sib_assigns[k].push(va);
            }
        }
    }
    // sibling modules: how they are matched by the import
    let mut siblings: Vec<Module> = Vec::new();
    let mut imports: Vec<Import> = Vec::new();
    // how the siblings' object identifiers relate: 0 = different second arcs, 1 = every OID is a
    // proper prefix of the next sibling's, 2 = they differ in the last arc only
    let oid_scheme = r.below(3);
    for (k, vas) in sib_assigns.iter().enumerate() {
        let mode = r.below(4); // 0 name only, 1 OID only (name in the import differs), 2 both, 3 name matches but the import names another version arc of the OID
        let name = format!("Sibling{k}");
        let arc = |name: Option<&str>, number: u64| OidComp { name: name.map(|n| n.to_string()), number: Some(number) };
        let oid = match oid_scheme {
            0 => vec![arc(Some("iso"), 1), arc(None, 100 + k as u64), arc(Some("sib"), k as u64)],
            1 => {
                let mut v = vec![arc(Some("iso"), 1), arc(None, 100)];
                for j in 0..k {
                    v.push(arc(Some("sub"), 7 + j as u64));
                }
                v
            }
            _ => vec![arc(Some("iso"), 1), arc(None, 100), arc(Some("sib"), k as u64)],
        };
        let mut sm = Module { name: name.clone(), oid: if mode >= 1 { Some(oid.clone()) } else { None }, tagging: Tagging::Automatic, imports: vec![], body: vas.iter().cloned().map(Assignment::Value).collect() };
        if r.chance(30) {
            // an unrelated definition in the sibling
            sm.body.push(Assignment::Type(Def { name: "Unrelated".into(), tag: None, ty: Type::Boolean }));
        }
        if !vas.is_empty() {
            let mut import_oid = oid;
            if mode == 3 {
                // "matched by name or object identifier": the name alone identifies the loaded module
                import_oid.push(arc(Some("version"), 99));
            }
            imports.push(Import { symbols: vas.iter().map(|v| v.name.clone()).collect(), from: if mode == 1 { format!("Renamed{k}") } else { name.clone() }, oid: if mode >= 1 { Some(import_oid) } else { None } });
            placement.push(format!("import{k}:{}", ["by-name", "by-oid", "by-name-and-oid", "by-name-with-other-oid"][mode as usize]));
        }
        siblings.push(sm);
    }
    if foreign_import {
        imports.push(Import { symbols: vec!["Foreign-Count".into(), "Foreign-Flag".into()], from: "Absent-Unit".into(), oid: None });
    }
    main.imports = imports;
    let mut body: Vec<Assignment> = local_before.into_iter().map(Assignment::Value).collect();
    body.extend(main.body.drain(..));
    body.extend(local_after.into_iter().map(Assignment::Value));
    main.body = body;
    // negative variants
    let mut negative = None;
    if negative_kind >= 4 && !assigns.is_empty() {
        let victim = &assigns[r.below(assigns.len() as u64) as usize];
        let is_local = main.values().any(|v| v.name == victim.name);
        let sib_of = siblings.iter().position(|s| s.values().any(|v| v.name == victim.name));
        match negative_kind {
            4 => {
                // the assignment does not exist anywhere
                main.body.retain(|a| !matches!(a, Assignment::Value(v) if v.name == victim.name));
                for s in &mut siblings {
                    s.body.retain(|a| !matches!(a, Assignment::Value(v) if v.name == victim.name));
                }
                negative = Some(format!("missing-assignment:{}", victim.name));
            }
            5 if sib_of.is_some() => {
                // the import is removed: the same-named assignment exists only in a non-imported sibling
                for imp in &mut main.imports {
                    imp.symbols.retain(|s| *s != victim.name);
                }
                main.imports.retain(|i| !i.symbols.is_empty());
                negative = Some(format!("import-removed:{}", victim.name));
            }
            6 if sib_of.is_some() => {
                // the exporting module is not loaded
                let k = sib_of.unwrap();
                siblings[k].body.clear();
                siblings[k].name = format!("NotLoaded{k}");
                siblings[k].oid = None;
                negative = Some(format!("exporter-not-loaded:{}", victim.name));
            }
            7 | 8 | 9 | 10 if matches!(victim.ty, ValueType::Integer) => {
                // a BOOLEAN / character string / hstring / bstring where an integer is needed
                let replace = |v: &mut ValueAssign| match negative_kind {
                    7 => {
                        v.ty = ValueType::Boolean;
                        v.lit = Lit::Bool(true);
                    }
                    8 => {
                        v.ty = ValueType::Str(Charset::Utf8);
                        v.lit = Lit::Str("seven".into());
                    }
                    9 => {
                        v.ty = ValueType::OctetString;
                        v.lit = Lit::Hex(vec![0x0A]);
                    }
                    _ => {
                        v.ty = ValueType::BitString;
                        v.lit = Lit::Bin(vec![false, false, false, false, true, false, true, false]);
                    }
                };
                let used_as_number = {
                    // only sites in ranges and sizes need an integer (DEFAULT may legitimately be anything)
                    let text = module_text(&main);
                    text.contains(&format!(".. {} ", victim.name)) || text.contains(&format!("( {} ..", victim.name)) || text.contains(&format!("SIZE ( {} ", victim.name))
                };
                if used_as_number {
                    for a in main.body.iter_mut().chain(siblings.iter_mut().flat_map(|s| s.body.iter_mut())) {
                        if let Assignment::Value(v) = a {
                            if v.name == victim.name {
                                replace(v);
                            }
                        }
                    }
                    negative = Some(format!("non-integer-for-bound:{}", victim.name));
                }
            }
            _ => {}
        }
        let _ = is_local;
    }
    let mut texts = vec![module_text(&main)];
    for s in &siblings {
        texts.push(module_text(s));
    }
    Scenario { texts, main_name: "Main-Unit".into(), literal, negative, sites_replaced: assigns.len(), placement }
}

const RULE: &str = "a literal-only module A (roundtrip profile, proptest; in every fourth case some ranges / sizes are made degenerate `n..n` with and without extension marker) is turned into a referencing variant: a random subset of its literal sites (INTEGER bounds, SIZE bounds, DEFAULT values of INTEGER / BOOLEAN / strings) is replaced by fresh value references whose assignments are placed before the use, after the use, or in one of 1..3 sibling modules imported by name only, by OID only (the name in the import differs), by both, or by name with an OID that has a further version arc - the siblings' OIDs differ in the second arc, or in the last arc only, or each is a proper prefix of the next; every load order of all modules into MultiModuleResolver (and Model::try_resolve when there is only one module). Oracle: the resolved definitions of the referencing module == those of the literal module (asn1rs's own PartialEq) for every load order. In every third scenario the main module also has a SEQUENCE whose DEFAULT components are typed by references that cannot be looked up (defined nowhere, or imported from a module that is not loaded): the literal variant resolves, so the referencing one must. Negative variants (must give Err for every load order): assignment missing everywhere; import removed while a same-named assignment exists in a loaded, non-imported sibling; exporting module not loaded; BOOLEAN / character string / hstring / bstring value assigned where a range or size bound needs an integer. Non-trivial: >= 1 site replaced; distinct = hash of (texts, negative kind).";

pub fn run(ctx: Ctx) -> i32 {
    let report = Report::new(ctx.clone(), RULE);
    let replay = |c: &J| -> Result<(), Fail> {
        let s: Scenario = serde_json::from_value(c.clone()).map_err(|e| ("harness:replay".to_string(), e.to_string()))?;
        check_scenario(&s).map(|_| ())
    };
    if let Some(path) = &ctx.replay {
        let j = read_replay(path);
        report.eval(1);
        match replay(&j["case"]) {
            Ok(()) => println!("replay: case passes"),
            Err((key, msg)) => {
                report.fail(&key, &msg, j["case"].clone());
            }
        }
        return report.finish();
    }
    report.run_probes(&replay);
    let tier = ctx.tier;
    let shards = 64u64;
    let cases = tier.pick(2400u32, 8_000u32);
    let bad = run_in_workers(&report, 16, std::time::Duration::from_secs(tier.pick(600, 7200)), &|report: &Report| {
        report.ctx.my_shards(shards).par_iter().for_each(|&shard| {
            if report.too_many_violations() {
                return;
            }
            let strat = (module_strategy(Profile::Roundtrip, "Main".into(), 2, 3), any::<u64>());
            let mut runner = report.ctx.runner("c12", shard, cases);
            let mut local = Local::default();
            let failed = std::cell::Cell::new(false);
            let cell = std::cell::RefCell::new(&mut local);
            let result = runner.run(&strat, |(m, salt)| {
                let s = build(&m, salt);
                let res = check_scenario(&s);
                if !failed.get() {
                    let mut l = cell.borrow_mut();
                    l.eval();
                    if let Ok(what) = &res {
                        l.class(what);
                        if *what != "literal-variant-rejected" && s.sites_replaced >= 1 {
                            l.nontrivial(hash_of(&(&s.texts, &s.negative)));
                            for p in &s.placement {
                                l.class(&format!("placement:{}", p.split(|c: char| c.is_ascii_digit()).next().unwrap_or("")));
                                if let Some((_, how)) = p.split_once(':') {
                                    l.class(&format!("import:{how}"));
                                }
                            }
                            if let Some(n) = &s.negative {
                                l.class(&format!("negative:{}", n.split(':').next().unwrap_or("")));
                            }
                            l.class(&format!("modules:{}", s.texts.len()));
                            if l.samples.len() < 1 && s.texts.iter().map(|t| t.len()).sum::<usize>() < 900 && s.texts.len() >= 2 {
                                l.sample(json!({"texts": s.texts, "negative": s.negative, "outcome": what}));
                            }
                        }
                    }
                }
                res.map(|_| ()).map_err(|(key, msg)| {
                    failed.set(true);
                    TestCaseError::fail(format!("{key}\u{1}{msg}"))
                })
            });
            if let Err(proptest::test_runner::TestError::Fail(reason, (m, salt))) = result {
                let r = reason.message().to_string();
                let (key, msg) = r.split_once('\u{1}').unwrap_or(("unknown", &r));
                report.fail(key, msg, serde_json::to_value(build(&m, salt)).unwrap());
            }
            report.merge_local(&mut local);
        });
    });
    dead_workers_are_infra(&report, &bad);
    for must in ["resolved-equal", "negative-rejected", "placement:local-before", "placement:local-after", "placement:sibling", "import:by-name", "import:by-oid", "import:by-name-and-oid", "import:by-name-with-other-oid", "negative:missing-assignment", "negative:import-removed", "negative:exporter-not-loaded", "negative:non-integer-for-bound"] {
        if report.class_count(must) == 0 && report.violation_count() == 0 {
            report.infra(&format!("generator fault: class {must} never generated"));
        }
    }
    report.finish()
}
