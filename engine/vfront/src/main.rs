//! vfront: checks of the asn1rs front end (tokenizer, parser, resolver, model conversions, code generators).
use vfront::*;

fn main() {
    vcore::harness::install_quiet_panic_hook();
    let args: Vec<String> = std::env::args().skip(1).collect();
    if args.first().map(|s| s.as_str()) == Some("dump-proto") {
        let text = std::fs::read_to_string(&args[1]).expect("file");
        match proto::proto_text(&text) {
            Ok(p) => println!("{p}"),
            Err(e) => println!("ERROR {e}"),
        }
        return;
    }
    if args.first().map(|s| s.as_str()) == Some("dump-rust") {
        let text = std::fs::read_to_string(&args[1]).expect("file");
        let src = expansion::generated_source(&text).expect("generated");
        println!("{src}");
        if args.get(2).is_some() {
            for e in expansion::expand_source(&src).expect("expand") {
                if Some(&e.name) == args.get(2) {
                    println!("write order: {:?}", expansion::write_order(&e.text));
                }
            }
        }
        return;
    }
    if args.first().map(|s| s.as_str()) == Some("fuzz-corpus") {
        // vfront fuzz-corpus <dir>: the literal modules of /repo/tests as seed corpus of the frontend fuzz target
        for (i, text) in c14::repo_modules().into_iter().enumerate() {
            if text.len() <= 4000 {
                let mut f = vec![0u8];
                f.extend_from_slice(text.as_bytes());
                let _ = std::fs::write(std::path::Path::new(&args[1]).join(format!("repo-{i}")), f);
            }
        }
        return;
    }
    let ctx = vcore::harness::Ctx::from_args(&args);
    let code = match ctx.prop.as_str() {
        "C07" => c07::run(ctx),
        "C08" => c08::run(ctx),
        "C09" => c09::run(ctx),
        "C12" => c12::run(ctx),
        "C13" => c13::run(ctx),
        "C14" => c14::run(ctx),
        "C15" => c15::run(ctx),
        "C16" => c16a::run(ctx),
        "C18" => c18a::run(ctx),
        other => {
            eprintln!("vfront does not serve {other}");
            2
        }
    };
    std::process::exit(code);
}
