//! C14 — the front end is total: malformed text gives an error, not a panic or hang.

use asn1rs_model::asn::MultiModuleResolver;
use asn1rs_model::parse::Tokenizer;
use asn1rs_model::protobuf::ToProtobufModel;
use asn1rs_model::Model;
use proptest::prelude::*;
use serde_json::{json, Value as J};
use std::sync::atomic::{AtomicUsize, Ordering};
use vcore::genfront::frontend_module_strategy;
use vcore::harness::*;
use vcore::print::module_text;

type Fail = (String, String);

const SANCTIONED: &str = "unclosed comment blocks";

/// is there a block comment that is never closed? (own scan, nesting counted like X.680 12.6.4)
fn has_unterminated_block_comment(text: &str) -> bool {
    // mirrors only what the documented panic is about: more "/*" than "*/" outside line comments
    let mut depth = 0i64;
    for line in text.lines() {
        let b: Vec<char> = line.chars().collect();
        let mut i = 0;
        while i < b.len() {
            if depth == 0 && b[i] == '-' && b.get(i + 1) == Some(&'-') {
                break;
            }
            if b[i] == '/' && b.get(i + 1) == Some(&'*') {
                depth += 1;
                i += 2;
                continue;
            }
            if depth > 0 && b[i] == '*' && b.get(i + 1) == Some(&'/') {
                depth -= 1;
                i += 2;
                continue;
            }
            i += 1;
        }
    }
    depth > 0
}

static CASE_STARTED_MS: AtomicUsize = AtomicUsize::new(0);
static CURRENT: std::sync::Mutex<String> = std::sync::Mutex::new(String::new());

fn now_ms() -> usize {
    static START: std::sync::OnceLock<std::time::Instant> = std::sync::OnceLock::new();
    START.get_or_init(std::time::Instant::now).elapsed().as_millis() as usize + 1
}

fn start_watchdog() {
    let mut watch = CaseWatch::new();
    std::thread::spawn(move || loop {
        std::thread::sleep(std::time::Duration::from_millis(250));
        // 20 s of CPU time (wall clock stretches when the machine is oversubscribed) or 300 s of wall clock
        if watch.over(CASE_STARTED_MS.load(Ordering::Relaxed), now_ms(), 20_000, 300_000) {
            if let (Ok(dir), Ok(w), Ok(cur)) = (std::env::var("VERIF_WORKER_DIR"), std::env::var("VERIF_WORKER"), CURRENT.try_lock()) {
                let i = w.split('/').next().unwrap_or("0").to_string();
                let _ = std::fs::write(std::path::Path::new(&dir).join(format!("crash-{i}.json")), json!({"why": "timeout", "case": {"text": *cur}}).to_string());
            }
            std::process::exit(3);
        }
    });
}

/// worker mode: the case in flight is kept in the worker's crash record, so that a case that kills
/// the process (stack overflow, abort) is known to the parent
static IN_FLIGHT: std::sync::Mutex<Option<std::fs::File>> = std::sync::Mutex::new(None);

fn open_in_flight_record() {
    if let (Ok(dir), Ok(w)) = (std::env::var("VERIF_WORKER_DIR"), std::env::var("VERIF_WORKER")) {
        let i = w.split('/').next().unwrap_or("0").to_string();
        if let Ok(f) = std::fs::File::create(std::path::Path::new(&dir).join(format!("crash-{i}.json"))) {
            *IN_FLIGHT.lock().unwrap() = Some(f);
        }
    }
}

pub fn check_text(text: &str) -> Result<&'static str, Fail> {
    if let Ok(mut c) = CURRENT.lock() {
        c.clear();
        c.push_str(text);
    }
    if let Ok(mut g) = IN_FLIGHT.lock() {
        if let Some(f) = g.as_mut() {
            use std::io::{Seek, Write};
            let rec = json!({"why": "in-flight", "case": {"text": text}}).to_string();
            let _ = f.seek(std::io::SeekFrom::Start(0));
            let _ = f.write_all(rec.as_bytes());
            let _ = f.set_len(rec.len() as u64);
        }
    }
    CASE_STARTED_MS.store(now_ms(), Ordering::Relaxed);
    let r = check_text_inner(text);
    CASE_STARTED_MS.store(0, Ordering::Relaxed);
    r
}

fn check_text_inner(text: &str) -> Result<&'static str, Fail> {
    let tokens = match catch(|| Tokenizer::default().parse(text)) {
        Ok(t) => t,
        Err(p) => {
            // "the only sanctioned panic is the documented one for an unterminated block comment"
            if p.contains(SANCTIONED) && has_unterminated_block_comment(text) {
                return Ok("sanctioned-panic");
            }
            return Err((format!("tokenizer-panic:{}", panic_class(&p)), format!("the tokenizer panicked: {p}")));
        }
    };
    let n_lines = text.lines().count().max(1);
    let max_col = text.lines().map(|l| l.chars().count()).max().unwrap_or(0) + 1;
    let unresolved = match catch(|| Model::try_from(tokens)) {
        Err(p) => return Err((format!("parser-panic:{}", panic_class(&p)), format!("the parser panicked: {p}"))),
        Ok(Err(e)) => {
            // "an error value carrying the offending token"
            if let Some(t) = e.token() {
                let loc = t.location();
                if loc.line() == 0 || loc.line() > n_lines || loc.column() == 0 || loc.column() > max_col {
                    return Err(("error-token-location".into(), format!("the error names token {t} at line {} column {}, outside the input ({n_lines} lines)", loc.line(), loc.column())));
                }
            }
            return Ok("parse-error");
        }
        Ok(Ok(m)) => m,
    };
    // two modules that import every symbol from each other (a cycle of re-exports): Ok or Err
    if !unresolved.imports.is_empty() {
        let mut a = unresolved.clone();
        let mut b = unresolved.clone();
        b.name = format!("{}-Twin", a.name);
        for i in &mut a.imports {
            i.from = b.name.clone();
            i.from_oid = None;
        }
        for i in &mut b.imports {
            i.from = a.name.clone();
            i.from_oid = None;
        }
        if let Err(p) = catch(|| {
            let mut r = MultiModuleResolver::default();
            r.push(a);
            r.push(b);
            r.try_resolve_all().is_ok()
        }) {
            return Err((format!("resolver-panic:{}", panic_class(&p)), format!("MultiModuleResolver panicked on two modules importing from each other: {p}")));
        }
    }
    let resolved = match catch(|| unresolved.try_resolve()) {
        Err(p) => return Err((format!("resolver-panic:{}", panic_class(&p)), format!("the resolver panicked: {p}"))),
        Ok(Err(_)) => {
            // the multi-module path must not panic either
            let u2 = unresolved.clone();
            if let Err(p) = catch(|| {
                let mut r = MultiModuleResolver::default();
                r.push(u2);
                r.try_resolve_all().is_ok()
            }) {
                return Err((format!("resolver-panic:{}", panic_class(&p)), format!("MultiModuleResolver panicked: {p}")));
            }
            return Ok("resolve-error");
        }
        Ok(Ok(m)) => m,
    };
    let rust = match catch(|| resolved.to_rust()) {
        Err(p) => return Err((format!("to_rust-panic:{}", panic_class(&p)), format!("to_rust panicked on an accepted module: {p}"))),
        Ok(r) => r,
    };
    if let Err(p) = catch(|| rust.to_protobuf()) {
        return Err((format!("to_protobuf-panic:{}", panic_class(&p)), format!("to_protobuf panicked on an accepted module: {p}")));
    }
    Ok("accepted")
}

fn panic_class(p: &str) -> String {
    let msg = p.split('\n').nth(1).unwrap_or(p);
    let mut out = String::new();
    let mut last_hash = false;
    for c in msg.chars().take(50) {
        if c.is_ascii_digit() {
            if !last_hash {
                out.push('#');
            }
            last_hash = true;
        } else {
            last_hash = false;
            out.push(if c.is_whitespace() { '_' } else { c });
        }
    }
    out
}

#[derive(Clone, Debug)]
pub enum Edit {
    DeleteToken(u16),
    DuplicateToken(u16),
    SwapTokens(u16),
    InsertToken(u16, u16),
    DeleteChar(u16),
    InsertChar(u16, u16),
    TruncateAtToken(u16),
    TruncateAtByte(u16),
    LongNumber(u16),
    OpenComment(u16),
    ReplaceToken(u16, u16),
    /// the text stays well formed, its numbers become odd: reversed ranges, bounds and tag
    /// numbers at type limits, negative sizes
    SwapNumbers(u16, u16),
    ReplaceNumber(u16, u16),
    /// a module that imports from itself (an IMPORTS clause is added if there is none)
    ImportFromSelf(u16),
    /// a character outside ASCII inside a quoted literal ('..'H, '..'B, ".."), at any offset
    ForeignInLiteral(u16, u16, u16),
    /// a well-formed snippet with a semantic trap behind BEGIN: alias cycles (also used with DEFAULT
    /// names, OPTIONAL, as list element), recursive structures, cyclic / self-referential value
    /// assignments, unknown names, duplicate definitions
    InsertTrap(u16),
}

const TRAPS: [&str; 12] = [
    "Cyc-A ::= Cyc-A Use-A ::= SEQUENCE { c Cyc-A DEFAULT red }",
    "Cyc-A ::= Cyc-B Cyc-B ::= Cyc-A Use-A ::= SEQUENCE { c Cyc-A DEFAULT red , d Cyc-B OPTIONAL }",
    "Cyc-A ::= Cyc-B Cyc-B ::= Cyc-C Cyc-C ::= Cyc-A Use-A ::= SET { l SEQUENCE OF Cyc-B , c Cyc-C DEFAULT 5 }",
    "Cyc-L ::= SEQUENCE OF Cyc-L",
    "Cyc-C ::= CHOICE { a Cyc-C , b NULL }",
    "Cyc-S ::= SET { a Cyc-S OPTIONAL , ... , b Cyc-S }",
    "v-one INTEGER ::= v-two v-two INTEGER ::= v-one Use-V ::= INTEGER ( 0 .. v-one )",
    "v-self INTEGER ::= v-self Use-W ::= OCTET STRING ( SIZE ( v-self ) )",
    "Use-E ::= SEQUENCE { e Enum-Z DEFAULT nope , f Nowhere OPTIONAL }",
    "Dup ::= BOOLEAN Dup ::= NULL Use-D ::= SEQUENCE { d Dup }",
    "Cyc-T ::= [ 3 ] Cyc-T Use-T ::= SET { t Cyc-T , u [ 3 ] BOOLEAN }",
    "En-Y ::= ENUMERATED { red , ... , red } Use-Y ::= SEQUENCE { y En-Y DEFAULT red }",
];



const NUMBERS: [&str; 24] = [
    "0", "1", "-1", "5", "127", "128", "-129", "255", "256", "300", "1000", "-500", "65535", "65536", "70000", "-32769", "2147483647", "2147483648", "4294967295", "4294967296", "9223372036854775807", "-9223372036854775808", "9223372036854775808",
    "18446744073709551615",
];

fn is_number(t: &str) -> bool {
    t.chars().all(|c| c.is_ascii_digit() || c == '-') && t.chars().any(|c| c.is_ascii_digit())
}

const VOCAB: [&str; 64] = [
    "SEQUENCE", "SET", "OF", "CHOICE", "ENUMERATED", "INTEGER", "BOOLEAN", "NULL", "OCTET", "BIT", "STRING", "UTF8String", "IA5String", "NumericString", "SIZE", "OPTIONAL", "DEFAULT", "BEGIN", "END", "DEFINITIONS", "AUTOMATIC", "TAGS",
    "IMPORTS", "FROM", "MIN", "MAX", "TRUE", "FALSE", "WITH", "COMPONENTS", "PRESENT", "ABSENT", "UNIVERSAL", "APPLICATION", "PRIVATE", "{", "}", "(", ")", "[", "]", ",", ".", "..", "...", "::=", ":", ";", "\"", "'", "0", "1", "-1",
    "255", "99999999999999999999999", "a", "b", "Foo", "my-field", "'AB'H", "'01'B", "\"abc\"", "--", "/*",
];
const CHARS: [char; 24] = ['{', '}', '(', ')', '[', ']', ',', '.', ':', '=', ';', '"', '\'', '-', '/', '*', ' ', '\n', '\t', 'a', 'Z', '0', '9', '\u{e4}'];

pub fn edit_strategy() -> impl Strategy<Value = Edit> {
    prop_oneof![
        3 => any::<u16>().prop_map(Edit::DeleteToken),
        2 => any::<u16>().prop_map(Edit::DuplicateToken),
        2 => any::<u16>().prop_map(Edit::SwapTokens),
        3 => (any::<u16>(), any::<u16>()).prop_map(|(a, b)| Edit::InsertToken(a, b)),
        2 => any::<u16>().prop_map(Edit::DeleteChar),
        2 => (any::<u16>(), any::<u16>()).prop_map(|(a, b)| Edit::InsertChar(a, b)),
        2 => any::<u16>().prop_map(Edit::TruncateAtToken),
        1 => any::<u16>().prop_map(Edit::TruncateAtByte),
        1 => any::<u16>().prop_map(Edit::LongNumber),
        1 => any::<u16>().prop_map(Edit::OpenComment),
        3 => (any::<u16>(), any::<u16>()).prop_map(|(a, b)| Edit::ReplaceToken(a, b)),
        3 => (any::<u16>(), any::<u16>()).prop_map(|(a, b)| Edit::SwapNumbers(a, b)),
        4 => (any::<u16>(), any::<u16>()).prop_map(|(a, b)| Edit::ReplaceNumber(a, b)),
        2 => any::<u16>().prop_map(Edit::ImportFromSelf),
        3 => (any::<u16>(), any::<u16>(), any::<u16>()).prop_map(|(a, b, c)| Edit::ForeignInLiteral(a, b, c)),
        3 => any::<u16>().prop_map(Edit::InsertTrap),
    ]
}

fn scale(x: u16, max: usize) -> usize {
    ((x as usize) * (max + 1)) >> 16
}

pub fn apply(text: &str, edits: &[Edit]) -> String {
    let mut toks: Vec<String> = text.split_whitespace().map(|s| s.to_string()).collect();
    let mut char_edits: Vec<&Edit> = Vec::new();
    for e in edits {
        if toks.is_empty() {
            break;
        }
        let n = toks.len();
        match e {
            Edit::DeleteToken(p) => {
                toks.remove(scale(*p, n - 1));
            }
            Edit::DuplicateToken(p) => {
                let i = scale(*p, n - 1);
                let t = toks[i].clone();
                toks.insert(i, t);
            }
            Edit::SwapTokens(p) => {
                if n >= 2 {
                    let i = scale(*p, n - 2);
                    toks.swap(i, i + 1);
                }
            }
            Edit::InsertToken(p, v) => toks.insert(scale(*p, n), VOCAB[scale(*v, VOCAB.len() - 1)].to_string()),
            Edit::ReplaceToken(p, v) => toks[scale(*p, n - 1)] = VOCAB[scale(*v, VOCAB.len() - 1)].to_string(),
            Edit::TruncateAtToken(p) => toks.truncate(scale(*p, n)),
            Edit::LongNumber(p) => {
                // the first number at or after the position
                let start = scale(*p, n - 1);
                if let Some(i) = (start..n).chain(0..start).find(|i| toks[*i].chars().all(|c| c.is_ascii_digit() || c == '-') && toks[*i].chars().any(|c| c.is_ascii_digit())) {
                    toks[i] = format!("{}9223372036854775807123456789", if toks[i].starts_with('-') { "-" } else { "" });
                }
            }
            Edit::OpenComment(p) => toks.insert(scale(*p, n), "/*".to_string()),
            Edit::SwapNumbers(p, q) => {
                let nums: Vec<usize> = (0..n).filter(|i| is_number(&toks[*i])).collect();
                if nums.len() >= 2 {
                    let (a, b) = (nums[scale(*p, nums.len() - 1)], nums[scale(*q, nums.len() - 1)]);
                    toks.swap(a, b);
                }
            }
            Edit::ReplaceNumber(p, v) => {
                let nums: Vec<usize> = (0..n).filter(|i| is_number(&toks[*i])).collect();
                if !nums.is_empty() {
                    toks[nums[scale(*p, nums.len() - 1)]] = NUMBERS[scale(*v, NUMBERS.len() - 1)].to_string();
                }
            }
            Edit::InsertTrap(v) => {
                if let Some(b) = toks.iter().position(|t| t == "BEGIN") {
                    // (behind an IMPORTS clause, if there is one directly behind BEGIN)
                    let at = if toks.get(b + 1).map(|t| t == "IMPORTS").unwrap_or(false) { toks.iter().position(|t| t == ";").map(|i| i + 1).unwrap_or(b + 1) } else { b + 1 };
                    for (k, t) in TRAPS[scale(*v, TRAPS.len() - 1)].split_whitespace().enumerate() {
                        toks.insert((at + k).min(toks.len()), t.to_string());
                    }
                }
            }
            Edit::ForeignInLiteral(p, q, v) => {
                const FOREIGN: [char; 6] = ['\u{e4}', '\u{e9}', '\u{20ac}', '\u{1F600}', '\u{7ff}', '\u{0}'];
                let lits: Vec<usize> = (0..n).filter(|i| toks[*i].starts_with('\'') || toks[*i].starts_with('"')).collect();
                if lits.is_empty() {
                    // none in the text: add a value assignment with an hstring
                    if let Some(b) = toks.iter().position(|t| t == "BEGIN") {
                        for (k, t) in ["lit-v", "OCTET", "STRING", "::=", "'0A1B2C'H"].into_iter().enumerate() {
                            toks.insert(b + 1 + k, t.to_string());
                        }
                    }
                } else {
                    let i = lits[scale(*p, lits.len() - 1)];
                    let mut chars: Vec<char> = toks[i].chars().collect();
                    // (behind the opening quote, anywhere up to the end)
                    let at = 1 + scale(*q, chars.len().saturating_sub(1));
                    chars.insert(at.min(chars.len()), FOREIGN[scale(*v, FOREIGN.len() - 1)]);
                    toks[i] = chars.into_iter().collect();
                }
            }
            Edit::ImportFromSelf(p) => {
                let own = toks[0].clone();
                let start = scale(*p, n - 1);
                if let Some(i) = (start..n).chain(0..start).find(|i| toks[*i] == "FROM" && *i + 1 < n) {
                    toks[i + 1] = own;
                } else if let Some(b) = toks.iter().position(|t| t == "BEGIN") {
                    // a name the module refers to: a word starting with a lower-case letter
                    let words: Vec<String> = toks.iter().filter(|t| t.chars().next().map(|c| c.is_ascii_lowercase()).unwrap_or(false) && t.chars().all(|c| c.is_ascii_alphanumeric() || c == '-')).cloned().collect();
                    let w = if words.is_empty() { "x".to_string() } else { words[scale(*p, words.len() - 1)].clone() };
                    for (k, t) in ["IMPORTS".to_string(), w, "FROM".to_string(), own, ";".to_string()].into_iter().enumerate() {
                        toks.insert(b + 1 + k, t);
                    }
                }
            }
            other => char_edits.push(other),
        }
    }
    let mut s = toks.join(" ");
    s.push('\n');
    for e in char_edits {
        let chars: Vec<char> = s.chars().collect();
        if chars.is_empty() {
            break;
        }
        match e {
            Edit::DeleteChar(p) => {
                let i = scale(*p, chars.len() - 1);
                s = chars.iter().enumerate().filter(|(k, _)| *k != i).map(|(_, c)| *c).collect();
            }
            Edit::InsertChar(p, v) => {
                let i = scale(*p, chars.len());
                let mut c2 = chars.clone();
                c2.insert(i, CHARS[scale(*v, CHARS.len() - 1)]);
                s = c2.into_iter().collect();
            }
            Edit::TruncateAtByte(p) => {
                let i = scale(*p, chars.len());
                s = chars[..i].iter().collect();
            }
            _ => {}
        }
    }
    s
}

/// the literal modules of the repository's tests, read as data
pub fn repo_modules() -> Vec<String> {
    let repo = std::env::var("VERIF_REPO").unwrap_or_else(|_| "/repo".to_string());
    let mut out = Vec::new();
    if let Ok(rd) = std::fs::read_dir(format!("{repo}/tests")) {
        let mut paths: Vec<_> = rd.flatten().map(|e| e.path()).filter(|p| p.extension().map(|e| e == "rs").unwrap_or(false)).collect();
        paths.sort();
        for p in paths {
            if let Ok(src) = std::fs::read_to_string(&p) {
                let mut rest = src.as_str();
                while let Some(i) = rest.find("asn_to_rust!(") {
                    let tail = &rest[i + 13..];
                    let t = tail.trim_start();
                    let (open, close) = if t.starts_with("r#\"") { ("r#\"", "\"#") } else if t.starts_with("r\"") { ("r\"", "\"") } else { ("\"", "\"") };
                    if let Some(s) = t.strip_prefix(open) {
                        if let Some(e) = s.find(close) {
                            let m = &s[..e];
                            if m.contains("DEFINITIONS") && m.len() < 6000 {
                                out.push(m.to_string());
                            }
                        }
                    }
                    rest = tail;
                }
            }
        }
    }
    out
}

const RULE: &str = "valid texts (generator output of the front-end profile and the literal modules of /repo/tests, read as data) with 1..4 edits from {delete / duplicate / swap / insert / replace a token, delete / insert a character, truncate at a token or byte, replace a number by an over-long one, swap two numbers, replace a number by a boundary value (reversed ranges, bounds at type limits), open a block comment, make the module import from itself, put a non-ASCII character into a quoted literal, insert a well-formed snippet with a semantic trap (alias cycles incl. use with DEFAULT / OPTIONAL / in a list, recursive structures, cyclic value assignments, unknown names, duplicates)}, plus token soups over the ASN.1 vocabulary; pipeline: Tokenizer::parse -> Model::try_from -> try_resolve (and MultiModuleResolver, also with a twin module so that both import every symbol from each other) -> to_rust -> to_protobuf. Oracle: Ok or Err, no panic except the documented 'unclosed comment blocks' one when the input really has an unterminated '/*'; parse::Error::token(), when present, lies inside the input; a case using > 20 s of CPU time (or 300 s of wall clock) stops the worker and is confirmed 3x in isolation. Non-trivial: the text tokenizes to >= 5 tokens and differs from the valid text it was derived from; distinct = hash of the text.";

pub fn run(ctx: Ctx) -> i32 {
    let report = Report::new(ctx.clone(), RULE);
    report.assumption("printing code for accepted modules is C09's subject; stdout/stderr noise of the library is ignored");
    let replay = |c: &J| -> Result<(), Fail> { check_text(c["text"].as_str().unwrap_or("")).map(|_| ()) };
    // a raw libFuzzer input (timeout / out-of-memory artifacts have no decoded case)
    if let Some(path) = &ctx.replay {
        let j = read_replay(path);
        if let Some(h) = j["case"]["fuzz_input"].as_str() {
            report.eval(1);
            match fuzz_one(&unhex(h)) {
                None => println!("replay: case passes"),
                Some((key, msg, case)) => {
                    report.fail(&key, &msg, case);
                }
            }
            return report.finish();
        }
    }
    if let Some(path) = &ctx.replay {
        start_watchdog();
        let j = read_replay(path);
        report.eval(1);
        match replay(&j["case"]) {
            Ok(()) => println!("replay: case passes"),
            Err((key, msg)) => {
                report.fail(&key, &msg, j["case"].clone());
            }
        }
        return report.finish();
    }
    report.run_probes(&replay);
    let tier = ctx.tier;
    let seeds = repo_modules();
    if ctx.worker.is_some() {
        start_watchdog();
        open_in_flight_record();
    }
    let shards = 64u64;
    let cases = tier.pick(3000u32, 40_000u32);
    let bad = run_in_workers(&report, 16, std::time::Duration::from_secs(tier.pick(900, 10800)), &|report: &Report| {
        // the library prints to stdout/stderr in some paths: silence is not required by the property
        for shard in report.ctx.my_shards(shards) {
            if report.too_many_violations() {
                return;
            }
            let seeds2 = seeds.clone();
            let base = prop_oneof![
                3 => frontend_module_strategy(2, 3).prop_map(|m| module_text(&m)),
                2 => (0..seeds2.len().max(1)).prop_map(move |i| seeds2.get(i).cloned().unwrap_or_else(|| "X DEFINITIONS ::= BEGIN END".to_string())),
                1 => proptest::collection::vec(0..VOCAB.len(), 3..40).prop_map(|v| format!("Soup DEFINITIONS ::= BEGIN {} END", v.iter().map(|i| VOCAB[*i]).collect::<Vec<_>>().join(" "))),
            ];
            let strat = (base, proptest::collection::vec(edit_strategy(), 1..5));
            let mut runner = report.ctx.runner("c14", shard, cases);
            let mut local = Local::default();
            let failed = std::cell::Cell::new(false);
            let cell = std::cell::RefCell::new(&mut local);
            let result = runner.run(&strat, |(valid, edits)| {
                let text = apply(&valid, &edits);
                let res = check_text(&text);
                if !failed.get() {
                    let mut l = cell.borrow_mut();
                    l.eval();
                    if let Ok(what) = &res {
                        l.class(what);
                        for e in &edits {
                            l.class(&format!("edit:{}", format!("{e:?}").split('(').next().unwrap_or("")));
                        }
                        if text.split_whitespace().count() >= 5 && text.split_whitespace().collect::<Vec<_>>() != valid.split_whitespace().collect::<Vec<_>>() {
                            l.nontrivial(hash_of(&text));
                            if l.samples.len() < 1 && text.len() < 300 {
                                l.sample(json!({"text": text, "edits": edits.iter().map(|e| format!("{e:?}")).collect::<Vec<_>>(), "outcome": what}));
                            }
                        }
                    }
                }
                res.map(|_| ()).map_err(|(key, msg)| {
                    failed.set(true);
                    TestCaseError::fail(format!("{key}\u{1}{msg}"))
                })
            });
            if let Err(proptest::test_runner::TestError::Fail(reason, (valid, edits))) = result {
                let r = reason.message().to_string();
                let (key, msg) = r.split_once('\u{1}').unwrap_or(("unknown", &r));
                report.fail(key, msg, json!({"text": apply(&valid, &edits), "derived_from": valid, "edits": edits.iter().map(|e| format!("{e:?}")).collect::<Vec<_>>()}));
            }
            report.merge_local(&mut local);
        }
    });
    // dead workers with a crash record: confirm in isolation
    for b in &bad {
        match b.crash_record.as_ref().and_then(|r| serde_json::from_str::<J>(r).ok()) {
            Some(j) => {
                let path = std::env::temp_dir().join(format!("verif-c14-confirm-{}-{}.json", std::process::id(), b.index));
                let _ = std::fs::write(&path, json!({"case": j["case"]}).to_string());
                let exe = std::env::current_exe().expect("exe");
                let mut reproduced = 0;
                let mut died_by_signal = false;
                for _ in 0..3 {
                    if let Ok(mut child) = std::process::Command::new(&exe).args(["C14", "--replay", path.to_str().unwrap()]).env("VERIF_OUT", std::env::temp_dir()).stdout(std::process::Stdio::null()).stderr(std::process::Stdio::null()).spawn() {
                        let t0 = std::time::Instant::now();
                        loop {
                            match child.try_wait() {
                                Ok(Some(s)) => {
                                    // 3 = watchdog; no exit code = killed by a signal (stack overflow / abort)
                                    if s.code() == Some(3) || s.code().is_none() {
                                        reproduced += 1;
                                        died_by_signal |= s.code().is_none();
                                    }
                                    break;
                                }
                                Ok(None) if t0.elapsed().as_secs() > 120 => {
                                    let _ = child.kill();
                                    let _ = child.wait();
                                    reproduced += 1;
                                    break;
                                }
                                Ok(None) => std::thread::sleep(std::time::Duration::from_millis(50)),
                                Err(_) => break,
                            }
                        }
                    }
                }
                let _ = std::fs::remove_file(&path);
                if reproduced == 3 && died_by_signal {
                    report.fail("process-abort", &format!("the front end killed the process instead of returning Ok or Err (reproduced 3 times in isolation): {}", b.stderr_tail.lines().filter(|l| l.contains("overflow") || l.contains("abort") || l.contains("fatal")).collect::<Vec<_>>().join(" / ")), j["case"].clone());
                } else if reproduced == 3 {
                    report.fail("hang", "the front end did not terminate within 20 s of CPU time (reproduced 3 times in isolation)", j["case"].clone());
                } else if j["why"] == "in-flight" && reproduced == 0 {
                    // the worker died for a reason that the case in flight does not reproduce
                    dead_workers_are_infra(&report, std::slice::from_ref(b));
                } else {
                    report.infra(&format!("worker {} hit the watchdog on a case that reproduced only {reproduced}/3 times (inconclusive)", b.index));
                }
            }
            None => dead_workers_are_infra(&report, std::slice::from_ref(b)),
        }
    }
    report.extra("repo_test_modules_used_as_seeds", json!(seeds.len()));
    for must in ["parse-error", "resolve-error", "accepted", "sanctioned-panic"] {
        if report.class_count(must) == 0 && report.violation_count() == 0 {
            report.infra(&format!("generator fault: outcome {must} never observed"));
        }
    }
    report.finish()
}


/// fuzz entry (engine/fuzz frontend): even first byte = the rest is the text itself; odd = the rest
/// drives the module generator and the edit generator of the proptest tier
pub fn fuzz_one(data: &[u8]) -> Option<(String, String, J)> {
    let (mode, rest) = data.split_first()?;
    let text = if mode & 1 == 0 {
        String::from_utf8_lossy(rest).into_owned()
    } else {
        // bytes 1..16 choose the module, every further 8-byte chunk is one edit
        let (head, tail) = rest.split_at(rest.len().min(16));
        let m = from_fuzz_bytes(&frontend_module_strategy(2, 3), head)?;
        let edits = if tail.is_empty() { vec![] } else { from_fuzz_chunks(&edit_strategy(), tail, 6) };
        apply(&module_text(&m), &edits)
    };
    check_text(&text).err().map(|(k, m)| (k, m, json!({"text": text})))
}
