//! C09 — every accepted module yields Rust code that rustc accepts.
//! Oracle: `cargo check` of a generated crate with one file per module containing
//! `asn_to_rust!(r#"…"#)`; rustc's JSON diagnostics are mapped back to modules by file name.

use crate::expansion::generated_source;
use crate::front::*;
use proptest::prelude::*;
use proptest::strategy::ValueTree;
use serde_json::{json, Value as J};
use std::collections::BTreeMap;
use vcore::genfront::{frontend_module_strategy, Rand};
use vcore::harness::*;
use vcore::print::module_text;
use vcore::schema::*;

const KEYWORD_FIELDS: [&str; 46] = [
    "as", "break", "const", "continue", "crate", "else", "enum", "extern", "false", "fn", "for", "if", "impl", "in", "let", "loop", "match", "mod", "move", "mut", "pub", "ref", "return", "self", "static", "struct", "super", "trait", "true",
    "type", "unsafe", "use", "where", "while", "async", "await", "dyn", "abstract", "box", "final", "macro", "override", "yield", "try", "union", "default",
];
const ODD_FIELDS: [&str; 14] = ["value", "new", "clone", "eq", "min", "max", "some", "none", "ok", "err", "vec", "string", "u8", "len"];
const TYPE_NAMES: [&str; 12] = ["Alpha", "Beta-Gamma", "My-Type", "X1", "Packet", "Inner", "Station-Id", "Msg", "T", "Result-Code", "Entry", "Node"];

/// Systematic part: every identifier of the pools in every naming position (component,
/// component with OPTIONAL / DEFAULT / in front of the extension marker, alternative, item),
/// ten identifiers per module, so that no keyword depends on the random draw.
pub fn identifier_table(exclude_self_variant: bool) -> Vec<Module> {
    let all: Vec<&str> = KEYWORD_FIELDS.iter().chain(ODD_FIELDS.iter()).copied().collect();
    let c = |name: &str, ty: Type, presence: Presence| Comp { name: name.to_string(), tag: None, ty, presence };
    let mut out = Vec::new();
    for (j, chunk) in all.chunks(10).enumerate() {
        let plain = Type::Sequence(Fields { comps: chunk.iter().map(|n| c(n, Type::Boolean, Presence::Mandatory)).collect(), root: None });
        let mixed = Type::Set(Fields {
            comps: chunk
                .iter()
                .enumerate()
                .map(|(i, n)| match i % 3 {
                    0 => c(n, Type::int(0, 255), Presence::Optional),
                    1 => c(n, Type::int(0, 255), Presence::Default(DefaultVal { lit: Lit::Int(7), via: None })),
                    _ => c(n, Type::Str { cs: Charset::Utf8, size: None }, Presence::Mandatory),
                })
                .collect(),
            root: None,
        });
        // every identifier once directly in front of the extension marker and once behind it
        let marker: Vec<Def> = chunk
            .iter()
            .enumerate()
            .map(|(i, n)| Def { name: format!("Ext{j}x{i}"), tag: None, ty: Type::Sequence(Fields { comps: vec![c(n, Type::Boolean, Presence::Mandatory), c(chunk[(i + 1) % chunk.len()], Type::Boolean, Presence::Optional)], root: Some(1) }) })
            .collect();
        let variants: Vec<&str> = chunk.iter().filter(|n| !(exclude_self_variant && **n == "self")).copied().collect();
        let choice = Type::Choice { alts: variants.iter().map(|n| Alt { name: n.to_string(), tag: None, ty: Type::Boolean }).collect(), root: None };
        let items = Type::Enumerated { items: variants.iter().map(|n| (n.to_string(), None)).collect(), root: None };
        let mut defs = vec![
            Def { name: format!("Plain{j}"), tag: None, ty: plain },
            Def { name: format!("Mixed{j}"), tag: None, ty: mixed },
            Def { name: format!("Alts{j}"), tag: None, ty: choice },
            Def { name: format!("Items{j}"), tag: None, ty: items },
        ];
        defs.extend(marker);
        out.push(Module::simple(&format!("Identifiers{j}"), defs));
    }
    // ENUMERATED items whose name mangling is not idempotent (hyphens next to capitals, inner
    // capitals), each used as DEFAULT: the constant must name the variant the enum really has
    let odd = ["x-Y-z", "ab-c-d", "tS", "a-B", "aBC", "x1-y2", "q-R-s-T", "ab"];
    let mut defs = vec![Def { name: "Odd-Items".into(), tag: None, ty: Type::Enumerated { items: odd.iter().map(|n| (n.to_string(), None)).collect(), root: None } }];
    defs.push(Def {
        name: "Uses-Odd".into(),
        tag: None,
        ty: Type::Sequence(Fields { comps: odd.iter().enumerate().map(|(i, n)| c(&format!("d{i}"), Type::Ref("Odd-Items".into()), Presence::Default(DefaultVal { lit: Lit::EnumItem(n.to_string()), via: None }))).collect(), root: None }),
    });
    out.push(Module::simple("Identifiers-Defaults", defs));
    out
}

/// Which open known findings a module falls under (excluded from the verdict, counted).
pub fn known_shapes(m: &Module, text_defaults_by_ref: bool) -> Vec<&'static str> {
    let mut out = Vec::new();
    fn walk(m: &Module, t: &Type, top_list: bool, out: &mut Vec<&'static str>, by_ref: bool) {
        match t {
            Type::Integer { range, named } => {
                if !named.is_empty() {
                    let (lb, ub, ext) = match range {
                        None => (None, None, false),
                        Some(r) => (r.lb.as_ref().map(|n| n.value), r.ub.as_ref().map(|n| n.value), r.ext),
                    };
                    let (lo, hi) = vcore::gen::rust_int_bounds(lb, ub, ext);
                    // (MIN..ub) is mapped like (0..ub): C15 finding
                    let lo = if lb.is_none() && ub.is_some() { 0 } else { lo };
                    if named.iter().any(|(_, v)| (*v as i128) < lo || (*v as i128) > hi) {
                        out.push("named-number-outside-field-type");
                    }
                }
                if let Some(r) = range {
                    if r.lb.is_none() && r.ub.as_ref().map(|u| u.value < 0).unwrap_or(false) && !r.ext {
                        out.push("min-to-negative-ub");
                    }
                }
            }
            Type::BitString { .. } => {}
            Type::Sequence(f) | Type::Set(f) => {
                let mut names: Vec<String> = f.comps.iter().map(|c| c.name.replace('-', "_")).collect();
                names.sort();
                if names.windows(2).any(|w| w[0] == w[1]) {
                    out.push("names-collide-after-mangling");
                }
                for c in &f.comps {
                    if let (Presence::Default(_), Type::Ref(n)) = (&c.presence, &c.ty) {
                        if by_ref && !matches!(m.def(n).map(|d| &d.ty), Some(Type::Enumerated { .. })) {
                            out.push("default-through-alias");
                        }
                    }
                    walk(m, &c.ty, false, out, by_ref);
                }
            }
            Type::SequenceOf { elem, .. } | Type::SetOf { elem, .. } => {
                if top_list && elem_is_inline_constructed(elem) {
                    out.push("toplevel-list-of-inline-constructed");
                }
                walk(m, elem, false, out, by_ref);
            }
            Type::Choice { alts, .. } => {
                if alts.iter().any(|a| a.name == "self") {
                    out.push("self-as-variant");
                }
                for a in alts {
                    walk(m, &a.ty, false, out, by_ref);
                }
            }
            Type::Enumerated { items, .. } => {
                if items.iter().any(|i| i.0 == "self") {
                    out.push("self-as-variant");
                }
            }
            _ => {}
        }
    }
    fn elem_is_inline_constructed(t: &Type) -> bool {
        match t {
            Type::SequenceOf { elem, .. } | Type::SetOf { elem, .. } => elem_is_inline_constructed(elem),
            t => t.is_own_rust_type(),
        }
    }
    for d in m.defs() {
        walk(m, &d.ty, true, &mut out, text_defaults_by_ref);
    }
    for v in m.values() {
        match (&v.ty, &v.lit) {
            (ValueType::Integer, Lit::Int(i)) if *i < 0 => out.push("negative-integer-constant"),
            (ValueType::BitString, _) | (ValueType::OctetString, _) => out.push("string-value-assignment"),
            _ => {}
        }
    }
    out.sort();
    out.dedup();
    out
}

/// identifier decoration: keyword / odd field names, type names
fn decorate_names(mut m: Module, salt: u64) -> Module {
    let mut r = Rand(salt | 1);
    fn walk(t: &mut Type, r: &mut Rand) {
        match t {
            Type::Sequence(f) | Type::Set(f) => {
                for c in &mut f.comps {
                    match r.below(10) {
                        0..=2 => c.name = KEYWORD_FIELDS[r.below(KEYWORD_FIELDS.len() as u64) as usize].to_string(),
                        3 => c.name = ODD_FIELDS[r.below(ODD_FIELDS.len() as u64) as usize].to_string(),
                        _ => {}
                    }
                    walk(&mut c.ty, r);
                }
                // distinct ASN.1 identifiers within the list
                let mut seen: Vec<String> = Vec::new();
                for (i, c) in f.comps.iter_mut().enumerate() {
                    if seen.contains(&c.name) {
                        c.name = format!("{}{}", c.name, i);
                    }
                    seen.push(c.name.clone());
                }
            }
            Type::SequenceOf { elem, .. } | Type::SetOf { elem, .. } => walk(elem, r),
            Type::Choice { alts, .. } => {
                for a in alts.iter_mut() {
                    if r.chance(25) {
                        a.name = KEYWORD_FIELDS[r.below(KEYWORD_FIELDS.len() as u64) as usize].to_string();
                    }
                    walk(&mut a.ty, r);
                }
                let mut seen: Vec<String> = Vec::new();
                for (i, a) in alts.iter_mut().enumerate() {
                    if seen.contains(&a.name) {
                        a.name = format!("{}{}", a.name, i);
                    }
                    seen.push(a.name.clone());
                }
            }
            Type::Enumerated { items, .. } => {
                if r.chance(30) && items.len() <= 8 {
                    for (i, it) in items.iter_mut().enumerate() {
                        it.0 = format!("{}{}", KEYWORD_FIELDS[r.below(KEYWORD_FIELDS.len() as u64) as usize], if i == 0 { String::new() } else { format!("-{i}") });
                    }
                }
            }
            _ => {}
        }
    }
    for a in &mut m.body {
        if let Assignment::Type(d) = a {
            walk(&mut d.ty, &mut r);
        }
    }
    let _ = TYPE_NAMES;
    // imported symbols need their exporting module in the same crate: not generated here
    m.imports.clear();
    m
}

/// greedy minimisation of a failing module: drop assignments / components while rustc still
/// reports the same class of error (bounded number of compiler runs)
pub fn minimize(m: &Module, class: &str, dir: &std::path::Path, budget: &mut usize) -> Module {
    let mut cur = m.clone();
    let still_fails = |cand: &Module, budget: &mut usize| -> bool {
        if *budget == 0 {
            return false;
        }
        *budget -= 1;
        let text = module_text(cand);
        if parse_and_resolve(&text).is_err() || generated_source(&text).is_err() {
            return false;
        }
        matches!(compile_batch(&[text], dir), Ok(v) if !v[0].compiled && error_class(&v[0].errors) == class)
    };
    // assignments
    let mut i = 0;
    while i < cur.body.len() {
        let mut cand = cur.clone();
        cand.body.remove(i);
        if !cand.body.is_empty() && still_fails(&cand, budget) {
            cur = cand;
        } else {
            i += 1;
        }
    }
    // components / alternatives of the remaining definitions (one level)
    for bi in 0..cur.body.len() {
        loop {
            let mut changed = false;
            let n = match &cur.body[bi] {
                Assignment::Type(d) => match &d.ty {
                    Type::Sequence(f) | Type::Set(f) => f.comps.len(),
                    Type::Choice { alts, .. } => alts.len(),
                    _ => 0,
                },
                _ => 0,
            };
            for k in 0..n {
                let mut cand = cur.clone();
                if let Assignment::Type(d) = &mut cand.body[bi] {
                    match &mut d.ty {
                        Type::Sequence(f) | Type::Set(f) => {
                            f.comps.remove(k);
                            if let Some(r) = f.root {
                                f.root = if f.comps.is_empty() { None } else { Some(r.min(f.comps.len()).max(1)) };
                            }
                        }
                        Type::Choice { alts, root } => {
                            if alts.len() <= 1 {
                                continue;
                            }
                            alts.remove(k);
                            if let Some(r) = root {
                                *root = Some((*r).min(alts.len()).max(1));
                            }
                        }
                        _ => {}
                    }
                }
                if still_fails(&cand, budget) {
                    cur = cand;
                    changed = true;
                    break;
                }
            }
            if !changed {
                break;
            }
        }
    }
    cur
}

pub struct Verdict {
    pub compiled: bool,
    pub errors: Vec<String>,
}

/// Compiles all texts in one crate; returns a verdict per text.
pub fn compile_batch(texts: &[String], dir: &std::path::Path) -> Result<Vec<Verdict>, String> {
    let repo = std::env::var("VERIF_REPO").unwrap_or_else(|_| "/repo".to_string());
    let src = dir.join("src");
    let _ = std::fs::remove_dir_all(&src);
    std::fs::create_dir_all(&src).map_err(|e| e.to_string())?;
    std::fs::write(dir.join("Cargo.toml"), format!("[package]\nname = \"c09batch\"\nversion = \"0.1.0\"\nedition = \"2021\"\n\n[dependencies]\nasn1rs = {{ path = \"{repo}\", features = [\"protobuf\"] }}\n\n[workspace]\n")).map_err(|e| e.to_string())?;
    if !dir.join("Cargo.lock").exists() {
        let _ = std::fs::copy(format!("{repo}/Cargo.lock"), dir.join("Cargo.lock"));
    }
    for (i, t) in texts.iter().enumerate() {
        if t.contains("\"#") {
            return Err("module text would end the raw string".into());
        }
        std::fs::write(src.join(format!("m{i}.rs")), format!("#![allow(dead_code, unused_imports, unused_variables, non_camel_case_types, non_snake_case, non_upper_case_globals)]\nuse asn1rs::prelude::*;\nasn_to_rust!(r#\"{t}\"#);\n")).map_err(|e| e.to_string())?;
    }
    let mut verdicts: Vec<Verdict> = texts.iter().map(|_| Verdict { compiled: true, errors: vec![] }).collect();
    let mut active: Vec<usize> = (0..texts.len()).collect();
    let target = std::env::var("CARGO_TARGET_DIR").unwrap_or_else(|_| "/verif/engine/target".to_string());
    for _round in 0..8 {
        let lib: String = active.iter().map(|i| format!("pub mod m{i};\n")).collect();
        std::fs::write(src.join("lib.rs"), lib).map_err(|e| e.to_string())?;
        let out = std::process::Command::new("cargo")
            .args(["check", "--offline", "--message-format=json", "-q"])
            .current_dir(dir)
            .env("CARGO_TARGET_DIR", format!("{target}/c09"))
            .env("CARGO_NET_OFFLINE", "true")
            .output()
            .map_err(|e| format!("cannot run cargo: {e}"))?;
        let stdout = String::from_utf8_lossy(&out.stdout);
        let mut failing: BTreeMap<usize, Vec<String>> = BTreeMap::new();
        let mut unattributed: Vec<String> = Vec::new();
        for line in stdout.lines() {
            let Ok(j) = serde_json::from_str::<J>(line) else { continue };
            if j["reason"] != "compiler-message" || j["message"]["level"] != "error" {
                continue;
            }
            let msg = j["message"]["message"].as_str().unwrap_or("").to_string();
            if msg.starts_with("aborting due to") || msg.starts_with("could not compile") {
                continue;
            }
            let code = j["message"]["code"]["code"].as_str().unwrap_or("").to_string();
            let mut file = None;
            fn find_file(span: &J) -> Option<String> {
                let f = span["file_name"].as_str()?;
                if f.starts_with("src/m") {
                    return Some(f.to_string());
                }
                find_file(&span["expansion"]["span"])
            }
            if let Some(spans) = j["message"]["spans"].as_array() {
                for s in spans {
                    if let Some(f) = find_file(s) {
                        file = Some(f);
                        break;
                    }
                }
            }
            let summary = format!("{}{}", if code.is_empty() { String::new() } else { format!("[{code}] ") }, msg.lines().next().unwrap_or(""));
            match file.and_then(|f| f.trim_start_matches("src/m").trim_end_matches(".rs").parse::<usize>().ok()) {
                Some(i) => failing.entry(i).or_default().push(summary),
                None => unattributed.push(summary),
            }
        }
        if failing.is_empty() {
            if !out.status.success() {
                return Err(format!("cargo check failed without attributable errors: {} {}", unattributed.join(" | "), String::from_utf8_lossy(&out.stderr).lines().rev().take(5).collect::<Vec<_>>().join(" | ")));
            }
            return Ok(verdicts);
        }
        for (i, errs) in failing {
            verdicts[i].compiled = false;
            verdicts[i].errors = errs;
            active.retain(|x| *x != i);
        }
    }
    Err("the batch did not become clean after 8 rounds".into())
}

fn error_class(errors: &[String]) -> String {
    let first = errors.first().cloned().unwrap_or_default();
    let mut out = String::new();
    let mut last_hash = false;
    let mut in_tick = false;
    for c in first.chars().take(70) {
        if c == '`' {
            in_tick = !in_tick;
            out.push('`');
            continue;
        }
        if in_tick {
            continue; // identifiers differ from module to module
        }
        if c.is_ascii_digit() {
            if !last_hash {
                out.push('#');
            }
            last_hash = true;
        } else {
            last_hash = false;
            out.push(if c.is_whitespace() { '_' } else { c });
        }
    }
    out
}

const RULE: &str = "a systematic identifier table (every Rust keyword and prelude-like name as component - mandatory / OPTIONAL / DEFAULT / in front of and behind the extension marker -, as CHOICE alternative and as ENUMERATED item) + generated front-end-profile modules with an identifier pool (every Rust keyword and prelude-like names as component / alternative / item names, hyphen variants), every DEFAULT literal kind, value references; plus a sample of the fixed run-time zoo's modules. A module is a case only if the in-process front end (parse, resolve, to_rust, code generator) returns a file; rejections are counted, not judged. Oracle: cargo check (offline, path dependency on the current tree) of a crate with one file per module containing asn_to_rust!(..); rustc JSON diagnostics are mapped back to modules by file name, failing modules are removed and the batch re-checked until clean, so every module gets a verdict; any error diagnostic (incl. a proc-macro panic) for an accepted module is a violation. Non-trivial: the module has an identifier that mangling changes, or a DEFAULT / value reference; distinct = text hash.";

pub fn run(ctx: Ctx) -> i32 {
    let report = Report::new(ctx.clone(), RULE);
    report.assumption("depends on the installed rustc; only `error` diagnostics count");
    let target = std::env::var("CARGO_TARGET_DIR").unwrap_or_else(|_| "/verif/engine/target".to_string());
    let dir = std::path::PathBuf::from(format!("{target}/c09/crate-{}", if ctx.replay.is_some() { "replay".to_string() } else { ctx.tier.as_str().to_string() }));
    let _ = std::fs::create_dir_all(&dir);
    if let Some(path) = &ctx.replay {
        let j = read_replay(path);
        let text = j["case"]["text"].as_str().unwrap_or("").to_string();
        report.eval(1);
        match compile_batch(&[text], &dir) {
            Err(e) => report.infra(&e),
            Ok(v) => {
                if !v[0].compiled {
                    report.fail(&format!("uncompilable:{}", error_class(&v[0].errors)), &format!("rustc rejects the generated code: {}", v[0].errors.join(" | ")), j["case"].clone());
                } else {
                    println!("replay: case passes");
                }
            }
        }
        return report.finish();
    }
    // probes of the open known findings (one compiler run for all of them)
    {
        let probes: Vec<(String, String)> = report.known.open.iter().filter(|f| f.prop == "C09").filter_map(|f| f.replay.as_ref().map(|p| (f.key.clone(), read_replay(p)["case"]["text"].as_str().unwrap_or("").to_string()))).collect();
        if !probes.is_empty() {
            match compile_batch(&probes.iter().map(|p| p.1.clone()).collect::<Vec<_>>(), &dir) {
                Ok(v) => {
                    for ((key, _), verdict) in probes.iter().zip(v) {
                        if !verdict.compiled {
                            report.known_probe_hit(key);
                        } else {
                            println!("NOTE: known finding property=C09 key={key} no longer reproduces on this tree");
                        }
                    }
                }
                Err(e) => report.infra(&format!("probes: {e}")),
            }
        }
    }
    let n_modules = ctx.tier.pick(140usize, 1200usize);
    // generate
    let mut runner = ctx.runner("c09", 0, 1);
    let strat = (frontend_module_strategy(2, 3), any::<u64>()).prop_map(|(m, s)| decorate_names(m, s));
    let mut cases: Vec<(Module, String, Vec<&'static str>)> = Vec::new();
    let mut rejected = 0u64;
    let mut excluded: BTreeMap<&'static str, u64> = BTreeMap::new();
    let open: Vec<&'static str> = ["named-number-outside-field-type", "self-as-variant", "min-to-negative-ub", "names-collide-after-mangling", "default-through-alias", "toplevel-list-of-inline-constructed", "negative-integer-constant", "string-value-assignment"].into_iter().filter(|k| report.known.is_open("C09", k)).collect();
    // systematic identifier table first
    for m in identifier_table(open.contains(&"self-as-variant")) {
        let text = module_text(&m);
        let shapes = known_shapes(&m, true);
        if let Some(k) = shapes.iter().find(|k| open.contains(k)) {
            *excluded.entry(k).or_insert(0) += 1;
            continue;
        }
        if parse_and_resolve(&text).is_ok() && generated_source(&text).is_ok() {
            report.class("identifier-table-module", 1);
            cases.push((m, text, shapes));
        } else {
            rejected += 1;
        }
    }
    let n_modules = n_modules + cases.len();
    let mut attempts = 0;
    while cases.len() < n_modules && attempts < n_modules * 20 {
        attempts += 1;
        let Ok(tree) = strat.new_tree(&mut runner) else { continue };
        let m = tree.current();
        let text = module_text(&m);
        let shapes = known_shapes(&m, true);
        if let Some(k) = shapes.iter().find(|k| open.contains(k)) {
            *excluded.entry(k).or_insert(0) += 1;
            continue;
        }
        // accepted by the front end?
        let accepted = parse_and_resolve(&text).is_ok() && generated_source(&text).is_ok();
        if !accepted {
            rejected += 1;
            continue;
        }
        cases.push((m, text, shapes));
    }
    // a sample of the fixed zoo's modules (if the zoo becomes uncompilable, C09 says so)
    let zoo_texts: Vec<String> = std::fs::read_to_string(format!("{}/engine/zoo_fixed.json", verif_dir().display()))
        .ok()
        .and_then(|t| serde_json::from_str::<Vec<vcore::zoo::ZooModule>>(&t).ok())
        .map(|z| z.iter().step_by(ctx.tier.pick(9, 2)).map(|zm| module_text(&zm.module)).collect())
        .unwrap_or_default();
    let mut texts: Vec<String> = cases.iter().map(|c| c.1.clone()).collect();
    let n_generated = texts.len();
    texts.extend(zoo_texts);
    // batches of 150 modules
    let mut failures: Vec<(usize, String, Vec<String>, bool)> = Vec::new();
    let mut idx = 0;
    for chunk in texts.chunks(150) {
        match compile_batch(chunk, &dir) {
            Err(e) => {
                report.infra(&e);
                break;
            }
            Ok(verdicts) => {
                for (k, v) in verdicts.iter().enumerate() {
                    let i = idx + k;
                    report.eval(1);
                    let text = &texts[i];
                    let from_zoo = i >= n_generated;
                    let interesting = from_zoo || text.contains('-') || text.contains("DEFAULT") || KEYWORD_FIELDS.iter().any(|kw| text.contains(&format!(" {kw} ")));
                    if v.compiled {
                        report.class(if from_zoo { "compiled:zoo-module" } else { "compiled:generated" }, 1);
                        if interesting {
                            report.nontrivial(hash_of(text));
                        }
                        if !from_zoo && i % 37 == 0 && text.len() < 500 {
                            report.sample(json!({"text": text, "verdict": "compiles"}));
                        }
                    } else {
                        failures.push((i, error_class(&v.errors), v.errors.clone(), from_zoo));
                    }
                }
                idx += chunk.len();
            }
        }
    }
    // one report per class of compiler error, minimised
    let mut seen: Vec<String> = Vec::new();
    for (i, class, errors, from_zoo) in failures {
        if seen.contains(&class) || seen.len() >= MAX_VIOLATIONS {
            continue;
        }
        seen.push(class.clone());
        let mut text = texts[i].clone();
        if let Some((m, _, _)) = cases.get(i) {
            let mut budget = 40usize;
            text = module_text(&minimize(m, &class, &dir, &mut budget));
        }
        report.fail(&format!("uncompilable:{class}"), &format!("the front end accepts the module but rustc rejects the generated code: {}", errors.iter().take(3).cloned().collect::<Vec<_>>().join(" | ")), json!({"text": text, "errors": errors, "from_zoo": from_zoo}));
    }
    report.extra("rejected_by_front_end", json!(rejected));
    report.extra("excluded_by_known_findings", json!(excluded));
    report.finish()
}
