//! The real code-generation path without rustc: `proc_macro::asn_to_rust(text)` (what the
//! `asn_to_rust!` macro emits) -> syn -> for every item carrying `#[asn(..)]`:
//! `proc_macro::parse_asn_definition(attr, item)` -> `proc_macro::expand(..)` token text.

use asn1rs_model::proc_macro;
use asn1rs_model::Definition;
use quote::ToTokens;
use vcore::harness::catch;

pub struct Expanded {
    /// Rust name of the item
    pub name: String,
    pub attr: String,
    pub definition: Definition<proc_macro::AsnModelType>,
    /// token text of the expansion (tokens separated by single blanks)
    pub text: String,
}

pub fn generated_source(text: &str) -> Result<String, String> {
    catch(|| proc_macro::asn_to_rust(text))
}

pub fn expand_source(source: &str) -> Result<Vec<Expanded>, String> {
    let file = syn::parse_file(source).map_err(|e| format!("the generated Rust file does not parse: {e}"))?;
    let mut out = Vec::new();
    for item in file.items {
        let (attrs, name) = match &item {
            syn::Item::Struct(s) => (s.attrs.clone(), s.ident.to_string()),
            syn::Item::Enum(e) => (e.attrs.clone(), e.ident.to_string()),
            _ => continue,
        };
        let Some(pos) = attrs.iter().position(|a| a.path().is_ident("asn")) else { continue };
        let attr_tokens = match &attrs[pos].meta {
            syn::Meta::List(l) => l.tokens.clone(),
            _ => continue,
        };
        let mut stripped = item.clone();
        match &mut stripped {
            syn::Item::Struct(s) => {
                s.attrs.remove(pos);
            }
            syn::Item::Enum(e) => {
                e.attrs.remove(pos);
            }
            _ => {}
        }
        let item_tokens = stripped.to_token_stream();
        let attr_text = attr_tokens.to_string();
        let parsed = catch(|| proc_macro::parse_asn_definition(attr_tokens, item_tokens)).map_err(|p| format!("{name}: the attribute parser panicked: {p}"))?;
        let definition = match parsed {
            Ok((Some(d), _)) => d,
            Ok((None, _)) => return Err(format!("{name}: the attribute parser returned no definition for #[asn({attr_text})]")),
            Err(ts) => return Err(format!("{name}: the attribute parser rejects the generated item: {}", ts.to_string().chars().take(300).collect::<String>())),
        };
        let def2 = definition.clone();
        let expansion = catch(|| proc_macro::expand(Some(def2))).map_err(|p| format!("{name}: expand() panicked: {p}"))?;
        let text = expansion.iter().map(|t| t.to_string()).collect::<Vec<_>>().join(" ");
        out.push(Expanded { name, attr: attr_text, definition, text });
    }
    Ok(out)
}

/// identifiers following every occurrence of `pattern` tokens (e.g. ["&", "self", "."]) inside the
/// body of `fn <fn_name>` of the impl `<trait_tail> for <self_ty>`
pub fn fn_body<'a>(text: &'a str, fn_name: &str) -> Option<&'a str> {
    let p = text.find(&format!("fn {fn_name} "))?;
    let rest = &text[p..];
    let open = rest.find('{')?;
    let mut depth = 0usize;
    for (i, c) in rest[open..].char_indices() {
        match c {
            '{' => depth += 1,
            '}' => {
                depth -= 1;
                if depth == 0 {
                    return Some(&rest[open..open + i + 1]);
                }
            }
            _ => {}
        }
    }
    None
}

/// field names in the order `write_seq` writes them: `… :: write_value (writer , & self . <name>) ?`
pub fn write_order(text: &str) -> Vec<String> {
    let Some(body) = fn_body(text, "write_seq") else { return vec![] };
    let toks: Vec<&str> = body.split_whitespace().collect();
    let mut out = Vec::new();
    for w in toks.windows(4) {
        if w[0] == "&" && w[1] == "self" && w[2] == "." {
            out.push(w[3].trim_end_matches(|c: char| !c.is_alphanumeric() && c != '_').to_string());
        }
    }
    out
}

/// field names in the order `read_seq` reads them: `Self { <name> : AsnDef… :: read_value (reader) ? , … }`
pub fn read_order(text: &str) -> Vec<String> {
    let Some(body) = fn_body(text, "read_seq") else { return vec![] };
    let toks: Vec<&str> = body.split_whitespace().collect();
    let mut out = Vec::new();
    for w in toks.windows(3) {
        if w[1] == ":" && w[2].starts_with("AsnDef") {
            out.push(w[0].trim_start_matches("r#").to_string());
        }
    }
    out
}

/// the TAG constant of `impl …common::Constraint for <ty>`: (class, number)
pub fn tag_of(text: &str, ty: &str) -> Option<(String, u32)> {
    let needle = format!("common :: Constraint for {ty} {{");
    let p = text.find(&needle)?;
    let rest = &text[p..];
    let end = rest.find('}')?;
    let body = &rest[..end];
    let t = body.rfind("Tag ::")?;
    let tail = body[t + 6..].trim();
    // `ContextSpecific (3) ;`
    let open = tail.find('(')?;
    let close = tail.find(')')?;
    let class = tail[..open].trim().to_string();
    let number = tail[open + 1..close].trim().trim_end_matches("usize").trim_end_matches('_').trim().parse().ok()?;
    Some((class, number))
}

/// a `const NAME : … = <value> ;` inside `impl … <trait_tail> for <ty> { … }`
pub fn const_of(text: &str, trait_tail: &str, ty: &str, name: &str) -> Option<String> {
    let needle = format!("{trait_tail} for {ty} {{");
    let p = text.find(&needle)?;
    let rest = &text[p + needle.len()..];
    // up to the first `fn` or the closing brace of a const-only impl
    let stop = rest.find(" fn ").unwrap_or(rest.len());
    let region = &rest[..stop];
    let c = region.find(&format!("const {name} :"))?;
    let after = &region[c..];
    let eq = after.find('=')?;
    let semi = after.find(';')?;
    Some(after[eq + 1..semi].trim().to_string())
}
