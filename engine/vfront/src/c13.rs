//! C13 — the model is invariant under whitespace and comment layout; token locations are exact.

use crate::front::*;
use asn1rs_model::parse::Token;
use proptest::prelude::*;
use rayon::prelude::*;
use serde_json::{json, Value as J};
use vcore::genfront::frontend_module_strategy;
use vcore::harness::*;
use vcore::layout::*;
use vcore::print::{module_tokens, render_plain, Tok};
use vcore::schema::Module;

type Fail = (String, String);

fn tok_sig(t: &Token) -> (bool, String) {
    match t {
        Token::Text(_, s) => (true, s.clone()),
        Token::Separator(_, c) => (false, c.to_string()),
    }
}

pub struct Stats {
    pub seps: Vec<Sep>,
    pub tokens: usize,
}

/// `ascii`: check locations too
pub fn check_layout(m: &Module, seps: &[Sep], ascii: bool) -> Result<Stats, Fail> {
    let toks = module_tokens(m);
    let plain = render_plain(&toks);
    let items = items_of(&toks);
    let (mut rendered, used) = render(&items, seps);
    // half of the layouts end without a final line break (the text then ends with its last token)
    if hash_of(&rendered.text) % 2 == 0 && rendered.text.ends_with('\n') {
        rendered.text.pop();
    }
    let t_plain = tokenize(&plain).map_err(|p| ("harness:plain-layout-panics".to_string(), format!("the plain layout makes the tokenizer panic: {p}")))?;
    let t_lay = tokenize(&rendered.text).map_err(|p| ("tokenizer-panic".to_string(), format!("the tokenizer panicked on a re-layout: {p}")))?;
    // token sequence (kind + text)
    let a: Vec<(bool, String)> = t_plain.iter().map(tok_sig).collect();
    let b: Vec<(bool, String)> = t_lay.iter().map(tok_sig).collect();
    if a != b {
        let first = a.iter().zip(b.iter()).position(|(x, y)| x != y).unwrap_or(a.len().min(b.len()));
        // which separator sits in front of the first differing token?
        let ctx = |v: &[(bool, String)]| v.iter().skip(first.saturating_sub(2)).take(5).map(|(_, s)| s.clone()).collect::<Vec<_>>().join(" ");
        // find the item boundary: count tokens per item in the plain layout
        let mut sep_kind = "?";
        let mut count = 0usize;
        for (i, it) in items.iter().enumerate() {
            let n = tokenize(it.text()).map(|t| t.len()).unwrap_or(1);
            if first < count + n + 1 || i + 1 == items.len() {
                sep_kind = used.get(i.saturating_sub(if first < count + n { 1 } else { 0 })).map(|s| s.kind()).unwrap_or("?");
                if first >= count + n {
                    sep_kind = used.get(i).map(|s| s.kind()).unwrap_or("?");
                }
                break;
            }
            count += n;
        }
        return Err((format!("tokens-differ:{sep_kind}"), format!("token sequences differ at token {first}: plain layout has `{}`, re-layout has `{}`", ctx(&a), ctx(&b))));
    }
    // the parsed model is equal
    let m_plain = parse_and_resolve(&plain);
    let m_lay = parse_and_resolve(&rendered.text);
    match (&m_plain, &m_lay) {
        (Ok(x), Ok(y)) => {
            if x.name != y.name || x.oid != y.oid || x.imports != y.imports || x.definitions != y.definitions || x.value_references != y.value_references {
                return Err(("model-differs".into(), "the parsed model of the re-layout differs from the plain layout's".into()));
            }
        }
        (Err(_), Err(_)) => {}
        (Ok(_), Err(e)) => return Err(("model-differs:relayout-rejected".into(), format!("the plain layout parses, the re-layout is rejected: {e:?}"))),
        (Err(e), Ok(_)) => return Err(("model-differs:plain-rejected".into(), format!("the re-layout parses, the plain layout is rejected: {e:?}"))),
    }
    // the file-based entry point (asn1rs::converter::Converter::load_file + to_rust) on a sample of
    // the layouts without oversized runs: the generated Rust files must be the plain layout's
    if rendered.text.len() < 20_000 && hash_of(&rendered.text) % 16 == 0 {
        let via_converter = |text: &str, tag: &str| -> Result<Result<Vec<(String, Vec<String>)>, String>, String> {
            let dir = std::env::temp_dir().join(format!("verif-c13-{}-{:016x}-{tag}", std::process::id(), hash_of(&text)));
            let _ = std::fs::create_dir_all(&dir);
            let file = dir.join("m.asn1");
            let _ = std::fs::write(&file, text);
            let out = dir.join("out");
            let _ = std::fs::create_dir_all(&out);
            let r = catch(|| -> Result<Vec<(String, Vec<String>)>, String> {
                let mut c = asn1rs::converter::Converter::default();
                c.load_file(&file).map_err(|e| format!("{e:?}").chars().take(120).collect::<String>())?;
                let files = c.to_rust(&out, |_| {}).map_err(|e| format!("{e:?}").chars().take(120).collect::<String>())?;
                let mut v = Vec::new();
                for (model, names) in files {
                    let mut contents: Vec<String> = names.iter().map(|n| std::fs::read_to_string(out.join(n)).unwrap_or_default()).collect();
                    contents.sort();
                    v.push((model, contents));
                }
                v.sort();
                Ok(v)
            });
            let _ = std::fs::remove_dir_all(&dir);
            r
        };
        let a = via_converter(&plain, "p").map_err(|p| ("harness:converter-panics-on-plain".to_string(), p))?;
        let b = via_converter(&rendered.text, "l").map_err(|p| ("converter-panic".to_string(), format!("Converter::load_file / to_rust panicked on a re-layout: {p}")))?;
        match (a, b) {
            (Ok(x), Ok(y)) => {
                if x != y {
                    return Err(("converter:generated-files-differ".into(), "Converter::load_file + to_rust generate different Rust files for the re-layout than for the plain layout".into()));
                }
            }
            (Err(_), Err(_)) => {}
            (Ok(_), Err(e)) => return Err(("converter:relayout-rejected".into(), format!("Converter::load_file accepts the plain layout and rejects the re-layout: {e}"))),
            (Err(e), Ok(_)) => return Err(("converter:plain-rejected".into(), format!("Converter::load_file accepts the re-layout and rejects the plain layout: {e}"))),
        }
    }
    // locations: "Each token's reported location equals the line and column at which it actually starts."
    if ascii {
        let mut k = 0usize;
        for (i, it) in items.iter().enumerate() {
            let (line, col) = rendered.starts[i];
            let expect_first = |t: &Token, what: &str| -> Result<(), Fail> {
                let loc = t.location();
                if loc.line() != line || loc.column() != col {
                    let sep_kind = if i == 0 { "start" } else { used[i - 1].kind() };
                    return Err((format!("location:{sep_kind}"), format!("token {what:?} starts at line {line} column {col} but its location says line {} column {}", loc.line(), loc.column())));
                }
                Ok(())
            };
            match it {
                Tok::Word(w) => {
                    let t = t_lay.get(k).ok_or_else(|| ("harness:alignment".to_string(), "token alignment".to_string()))?;
                    expect_first(t, w)?;
                    k += 1;
                }
                Tok::Sym(s) => {
                    for (j, c) in s.chars().enumerate() {
                        let t = t_lay.get(k).ok_or_else(|| ("harness:alignment".to_string(), "token alignment".to_string()))?;
                        let loc = t.location();
                        if loc.line() != line || loc.column() != col + j {
                            let sep_kind = if i == 0 { "start" } else { used[i - 1].kind() };
                            return Err((format!("location:{sep_kind}"), format!("separator {c:?} is at line {line} column {} but its location says line {} column {}", col + j, loc.line(), loc.column())));
                        }
                        k += 1;
                    }
                }
                Tok::Quoted(q) => {
                    let n = tokenize(q).map(|t| t.len()).unwrap_or(1);
                    if let Some(t) = t_lay.get(k) {
                        expect_first(t, q)?;
                    }
                    k += n;
                }
                Tok::Break => {}
            }
        }
    }
    Ok(Stats { seps: used, tokens: t_lay.len() })
}

fn case_json(m: &Module, seps: &[Sep], ascii: bool) -> J {
    let toks = module_tokens(m);
    let items = items_of(&toks);
    let (rendered, _) = render(&items, seps);
    json!({"module": serde_json::to_value(m).unwrap(), "ascii": ascii, "separators": seps.iter().map(|s| s.render()).collect::<Vec<_>>(), "separator_kinds": seps.iter().map(|s| s.kind()).collect::<Vec<_>>(), "text": rendered.text, "plain": render_plain(&toks)})
}

const RULE: &str = "generated front-end-profile modules (proptest) are printed as a list of lexical items; a layout chooses a separator at every item boundary from {empty (where no separator is required), space, tab, LF, CRLF, lone CR, two blanks, blank+LF, '-- text' line comments, '/* text */' block comments, nested block comments; comments with and without adjacent blanks; texts with and without a final line break; comment text containing dashes, lone '*' and '/', quotes, keywords, line breaks}. Oracle: the token sequence (kind + text) of the layout equals that of the plain layout, the parsed and resolved models are equal, a sample of the layouts gives identical generated Rust files through the file-based entry point Converter::load_file + to_rust, and (ASCII layouts) every token's Location equals the line/column where the printer put its first character. Non-trivial: the layout uses >= 1 comment or line break; distinct = hash of the text.";

pub fn run(ctx: Ctx) -> i32 {
    let report = Report::new(ctx.clone(), RULE);
    report.assumption("line comment text never contains '--' (X.680 12.6.3 would end the comment there; asn1rs deliberately does not implement that and the property does not list it); string literal contents are never touched");
    report.assumption("columns are counted in characters; a tab and a lone CR occupy one column; locations are checked on ASCII-only layouts");
    let replay = |c: &J| -> Result<(), Fail> {
        let m: Module = serde_json::from_value(c["module"].clone()).map_err(|e| ("harness:replay".to_string(), e.to_string()))?;
        // separators are replayed from their rendered text
        let seps: Vec<Sep> = c["separators"].as_array().map(|a| a.iter().map(|s| sep_from_text(s.as_str().unwrap_or(" "))).collect()).unwrap_or_default();
        check_layout(&m, &seps, c["ascii"].as_bool().unwrap_or(true)).map(|_| ())
    };
    if let Some(path) = &ctx.replay {
        let j = read_replay(path);
        report.eval(1);
        match replay(&j["case"]) {
            Ok(()) => println!("replay: case passes"),
            Err((key, msg)) => {
                report.fail(&key, &msg, j["case"].clone());
            }
        }
        return report.finish();
    }
    report.run_probes(&replay);
    let tier = ctx.tier;
    let shards = 64u64;
    let cases = tier.pick(320u32, 16_000u32);
    let bad = run_in_workers(&report, 16, std::time::Duration::from_secs(tier.pick(600, 7200)), &|report: &Report| {
        report.ctx.my_shards(shards).par_iter().for_each(|&shard| {
            if report.too_many_violations() {
                return;
            }
            let ascii = shard % 4 != 3;
            let strat = (frontend_module_strategy(2, 4), proptest::collection::vec(sep_strategy(ascii), 400));
            let mut runner = report.ctx.runner("c13", shard, cases);
            let mut local = Local::default();
            let failed = std::cell::Cell::new(false);
            let cell = std::cell::RefCell::new(&mut local);
            let result = runner.run(&strat, |(m, seps)| {
                let res = check_layout(&m, &seps, ascii);
                if !failed.get() {
                    let mut l = cell.borrow_mut();
                    l.eval();
                    if let Ok(st) = &res {
                        let toks = module_tokens(&m);
                        let items = items_of(&toks);
                        for (i, s) in st.seps.iter().enumerate() {
                            let side = |t: &Tok| match t {
                                Tok::Word(_) => "text",
                                Tok::Sym(_) => "punct",
                                _ => "quoted",
                            };
                            l.class(&format!("sep:{}:{}-{}", s.kind(), side(&items[i]), side(&items[i + 1])));
                        }
                        if st.seps.iter().any(|s| s.is_comment_or_break()) {
                            let (r, _) = render(&items, &seps);
                            l.nontrivial(hash_of(&r.text));
                            if l.samples.len() < 1 && r.text.len() < 500 {
                                l.sample(json!({"text": r.text, "tokens": st.tokens}));
                            }
                        }
                    }
                }
                res.map(|_| ()).map_err(|(key, msg)| {
                    failed.set(true);
                    TestCaseError::fail(format!("{key}\u{1}{msg}"))
                })
            });
            if let Err(proptest::test_runner::TestError::Fail(reason, (m, seps))) = result {
                let r = reason.message().to_string();
                let (key, msg) = r.split_once('\u{1}').unwrap_or(("unknown", &r));
                // only the separators that are actually used
                let n = items_of(&module_tokens(&m)).len().saturating_sub(1);
                report.fail(key, msg, case_json(&m, &seps[..n.min(seps.len())], ascii));
            }
            report.merge_local(&mut local);
        });
    });
    dead_workers_are_infra(&report, &bad);
    report.finish()
}

/// inverse of Sep::render, good enough for replay files
pub fn sep_from_text(s: &str) -> Sep {
    match s {
        "" => Sep::Empty,
        " " => Sep::Space,
        "\t" => Sep::Tab,
        "\n" => Sep::Lf,
        "\r\n" => Sep::CrLf,
        "  " => Sep::TwoSpaces,
        " \n" => Sep::SpaceLf,
        "\r" => Sep::Cr,
        other => {
            let before = other.starts_with(' ');
            let body = other.trim_start_matches(' ');
            if let Some(rest) = body.strip_prefix("--") {
                Sep::LineComment(rest.trim_end_matches('\n').to_string(), before)
            } else {
                let after = body.ends_with(' ') && body.trim_end_matches(' ').ends_with("*/");
                let core = body.trim_end_matches(' ');
                let inner = core.strip_prefix("/*").and_then(|x| x.strip_suffix("*/")).unwrap_or("");
                // raw text inside the outer comment (nested comments included verbatim)
                Sep::BlockComment(inner.to_string(), before, after)
            }
        }
    }
}
