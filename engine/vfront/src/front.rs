//! Access to the asn1rs front end through its public API, and the conversion of its resolved
//! model into the harness's abstract schema (only public fields / accessors are read).

use asn1rs_model::asn as a;
use asn1rs_model::parse::{Token, Tokenizer};
use asn1rs_model::resolve::Resolved;
use asn1rs_model::{LiteralValue, Model};
use vcore::canon::Canon;
use vcore::harness::catch;
use vcore::schema::*;

pub type AsnModel = Model<a::Asn<Resolved>>;

pub fn tokenize(text: &str) -> Result<Vec<Token>, String> {
    catch(|| Tokenizer::default().parse(text))
}

#[derive(Debug)]
pub enum FrontError {
    TokenizerPanic(String),
    ParsePanic(String),
    Parse(String),
    ResolvePanic(String),
    Resolve(String),
}

pub fn parse_and_resolve(text: &str) -> Result<AsnModel, FrontError> {
    let tokens = tokenize(text).map_err(FrontError::TokenizerPanic)?;
    let unresolved = catch(|| Model::try_from(tokens)).map_err(FrontError::ParsePanic)?.map_err(|e| FrontError::Parse(short(&format!("{e}"))))?;
    catch(|| unresolved.try_resolve()).map_err(FrontError::ResolvePanic)?.map_err(|e| FrontError::Resolve(format!("{e}")))
}

pub fn short(s: &str) -> String {
    s.lines().next().unwrap_or("").chars().take(200).collect()
}

fn tag(t: a::Tag) -> Tag {
    match t {
        a::Tag::Universal(n) => Tag { class: TagClass::Universal, number: n as u32 },
        a::Tag::Application(n) => Tag { class: TagClass::Application, number: n as u32 },
        a::Tag::ContextSpecific(n) => Tag { class: TagClass::Context, number: n as u32 },
        a::Tag::Private(n) => Tag { class: TagClass::Private, number: n as u32 },
    }
}

fn charset(c: a::Charset) -> Charset {
    match c {
        a::Charset::Utf8 => Charset::Utf8,
        a::Charset::Ia5 => Charset::Ia5,
        a::Charset::Numeric => Charset::Numeric,
        a::Charset::Printable => Charset::Printable,
        a::Charset::Visible => Charset::Visible,
    }
}

fn size(s: &a::Size<usize>) -> Option<Size> {
    let max = |v: usize| if v as u128 == i64::MAX as u128 { None } else { Some(Num::lit(v as i128)) };
    match s {
        a::Size::Any => None,
        a::Size::Fix(n, ext) => Some(Size { lb: Num::lit(*n as i128), ub: Some(Num::lit(*n as i128)), fixed: true, ext: *ext }),
        a::Size::Range(lb, ub, ext) => Some(Size { lb: Num::lit(*lb as i128), ub: max(*ub), fixed: false, ext: *ext }),
    }
}

fn literal(l: &LiteralValue) -> Lit {
    match l {
        LiteralValue::Boolean(b) => Lit::Bool(*b),
        LiteralValue::String(s) => Lit::Str(s.clone()),
        LiteralValue::Integer(i) => Lit::Int(*i as i128),
        LiteralValue::OctetString(b) => Lit::Hex(b.clone()),
        LiteralValue::EnumeratedVariant(_, v) => Lit::EnumItem(v.clone()),
    }
}

fn fields(l: &a::ComponentTypeList<Resolved>) -> Fields {
    Fields {
        comps: l
            .fields
            .iter()
            .map(|f| {
                let (inner, optional) = match &f.role.r#type {
                    a::Type::Optional(inner) => (&**inner, true),
                    t => (t, false),
                };
                Comp {
                    name: f.name.clone(),
                    tag: f.role.tag.map(tag),
                    ty: ty(inner),
                    presence: match (&f.role.default, optional) {
                        (Some(d), _) => Presence::Default(DefaultVal { lit: literal(d), via: None }),
                        (None, true) => Presence::Optional,
                        (None, false) => Presence::Mandatory,
                    },
                }
            })
            .collect(),
        root: l.extension_after.map(|i| i + 1),
    }
}

pub fn ty(t: &a::Type<Resolved>) -> Type {
    match t {
        a::Type::Boolean => Type::Boolean,
        a::Type::Null => Type::Null,
        a::Type::Integer(i) => {
            let lb = i.range.min().map(|v| Num::lit(v as i128));
            let ub = i.range.max().map(|v| Num::lit(v as i128));
            let ext = i.range.extensible();
            Type::Integer { range: if lb.is_none() && ub.is_none() && !ext { None } else { Some(Range { lb, ub, ext }) }, named: i.constants.clone() }
        }
        a::Type::String(s, c) => Type::Str { cs: charset(*c), size: size(s) },
        a::Type::OctetString(s) => Type::OctetString { size: size(s) },
        a::Type::BitString(b) => Type::BitString { size: size(&b.size), named: b.constants.clone() },
        // OPTIONAL / DEFAULT outside a component list do not occur in parsed models
        a::Type::Optional(inner) => ty(inner),
        a::Type::Default(inner, _) => ty(inner),
        a::Type::Sequence(l) => Type::Sequence(fields(l)),
        a::Type::Set(l) => Type::Set(fields(l)),
        a::Type::SequenceOf(inner, s) => Type::SequenceOf { elem: Box::new(ty(inner)), size: size(s) },
        a::Type::SetOf(inner, s) => Type::SetOf { elem: Box::new(ty(inner)), size: size(s) },
        a::Type::Enumerated(e) => Type::Enumerated { items: e.variants().map(|v| (v.name().to_string(), v.number().map(|n| n as i64))).collect(), root: e.extension_after_index().map(|i| i + 1) },
        a::Type::Choice(c) => Type::Choice { alts: c.variants().map(|v| Alt { name: v.name.clone(), tag: v.tag.map(tag), ty: ty(&v.r#type) }).collect(), root: c.extension_after_index().map(|i| i + 1) },
        a::Type::TypeReference(n, _) => Type::Ref(n.clone()),
    }
}

fn oid(o: &a::ObjectIdentifier) -> Vec<OidComp> {
    o.iter()
        .map(|c| match c {
            a::ObjectIdentifierComponent::NameForm(n) => OidComp { name: Some(n.clone()), number: None },
            a::ObjectIdentifierComponent::NumberForm(v) => OidComp { name: None, number: Some(*v) },
            a::ObjectIdentifierComponent::NameAndNumberForm(n, v) => OidComp { name: Some(n.clone()), number: Some(*v) },
        })
        .collect()
}

fn value_type(t: &a::Type<Resolved>) -> ValueType {
    match t {
        a::Type::Integer(_) => ValueType::Integer,
        a::Type::Boolean => ValueType::Boolean,
        a::Type::String(_, c) => ValueType::Str(charset(*c)),
        a::Type::OctetString(_) => ValueType::OctetString,
        a::Type::BitString(_) => ValueType::BitString,
        a::Type::TypeReference(n, _) => ValueType::Named(n.clone()),
        other => ValueType::Named(format!("<{other:?}>")),
    }
}

/// the model's content in the harness's canonical form
pub fn canon_of(m: &AsnModel) -> Canon {
    Canon {
        name: m.name.clone(),
        oid: m.oid.as_ref().map(oid),
        imports: m.imports.iter().map(|i| Import { symbols: i.what.clone(), from: i.from.clone(), oid: i.from_oid.as_ref().map(oid) }).collect(),
        values: m.value_references.iter().map(|v| ValueAssign { name: v.name.clone(), ty: value_type(&v.role.r#type), lit: literal(&v.value) }).collect(),
        defs: m.definitions.iter().map(|d| Def { name: d.0.clone(), tag: d.1.tag.map(tag), ty: vcore::canon::norm_type(&ty(&d.1.r#type)) }).collect(),
    }
}
