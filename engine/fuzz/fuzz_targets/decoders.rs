#![no_main]
//! C04: UPER / protobuf readers of every compiled zoo type and the DER primitives on arbitrary
//! bytes and on valid encodings with faults: no panic, no over-read, bounded allocation.
use libfuzzer_sys::fuzz_target;
use std::sync::OnceLock;

static ZOO: OnceLock<vrt::common::Zoo> = OnceLock::new();

fuzz_target!(|data: &[u8]| {
    let zoo = ZOO.get_or_init(|| {
        vcore::harness::install_quiet_panic_hook();
        vrt::common::load_zoo()
    });
    if let Some((key, msg, case)) = vrt::c04::fuzz_one(zoo, data) {
        vcore::harness::fuzz_failure("C04", &key, &msg, case);
    }
});
