#![no_main]
//! C10: one PER primitive write + read against the reference primitives.
use libfuzzer_sys::fuzz_target;

static HOOK: std::sync::Once = std::sync::Once::new();

fuzz_target!(|data: &[u8]| {
    // (libFuzzer's own hook aborts on every panic, also on those the oracle catches and judges)
    HOOK.call_once(vcore::harness::install_quiet_panic_hook);
    if let Some((key, msg, case)) = vprim::c10::fuzz_one(data) {
        vcore::harness::fuzz_failure("C10", &key, &msg, case);
    }
});
