//! vrt as a library: the check modules are shared with the fuzz targets (engine/fuzz).
pub mod c03;
pub mod c04;
pub mod c05;
pub mod c06;
pub mod c08b;
pub mod c17;
pub mod c18b;
pub mod c19;
pub mod common;
pub mod uper;
