//! C01 (UPER round trip, exact bit consumption, back-to-back messages) and
//! C02 (bit-exact X.691 inside the conformance profile).

use crate::common::*;
use asn1rs::descriptor::Writer as _;
use asn1rs::descriptor::Reader as _;
use asn1rs::prelude::{UperReader, UperWriter};
use proptest::prelude::*;
use proptest::strategy::BoxedStrategy;
use rayon::prelude::*;
use serde_json::{json, Value as J};
use vcore::bitmodel::{bits_of, bitstr};
use vcore::gen::{self, ValueCfg};
use vcore::harness::*;
use vcore::refcodec;
use vcore::schema::*;

type Fail = (String, String);

// ---------------------------------------------------------------------------------------------
// C01

#[derive(Default)]
pub struct HistStats {
    pub encoded: usize,
    pub refused: Vec<&'static str>,
    pub encode_panics: usize,
    pub unbuildable: usize,
    pub bits: Vec<(usize, Vec<u8>, usize)>,
}

/// `msgs`: (entry index, abstract value). Writes `filler` single-bit messages first.
pub fn check_history(zoo: &Zoo, msgs: &[(usize, Value)], filler: usize, stats: &mut HistStats) -> Result<(), Fail> {
    let mut w = UperWriter::default();
    for i in 0..filler {
        w.write_boolean::<asn1rs::descriptor::boolean::NoConstraint>(i % 2 == 0).map_err(|_| ("harness".to_string(), "cannot write filler".to_string()))?;
    }
    // (entry, built value, produced bits)
    let mut written: Vec<(usize, zoort::AnyVal, usize)> = Vec::new();
    let mut clean = true;
    for (ei, v) in msgs {
        let e = &zoo.entries[*ei];
        let built = match e.build(v) {
            Ok(b) => b,
            Err(_) => {
                stats.unbuildable += 1;
                continue;
            }
        };
        let before = w.bit_len();
        match catch(|| e.entry.ty.uper_write(&mut w, &*built)) {
            Err(_) => {
                // "if UPER encoding succeeds": a panicking encoder is C03/C06's subject; the writer is unusable now
                stats.encode_panics += 1;
                clean = false;
                break;
            }
            Ok(Err(err)) => {
                stats.refused.push(kind_name(err.kind()));
                clean = false; // nothing is claimed about a writer after Err
                break;
            }
            Ok(Ok(())) => {
                let produced = w.bit_len() - before;
                stats.encoded += 1;
                written.push((*ei, built, produced));
            }
        }
    }
    let bytes = w.byte_content().to_vec();
    let total = w.bit_len();
    if clean && bytes.len() != (total + 7) / 8 {
        return Err(("writer-length".into(), format!("byte_content().len() = {} but bit_len() = {total}", bytes.len())));
    }
    for mode in 0..2 {
        let mut r = if mode == 0 { UperReader::from((&bytes[..], total)) } else { w.as_reader() };
        for _ in 0..filler {
            let _ = r.read_boolean::<asn1rs::descriptor::boolean::NoConstraint>();
        }
        for (k, (ei, built, produced)) in written.iter().enumerate() {
            let e = &zoo.entries[*ei];
            let at = format!("message {k} ({})", e.id());
            let before = catch(|| r.bits_remaining()).map_err(|p| ("bits_remaining-panic".to_string(), format!("{at}: bits_remaining() panicked before the read: {p}")))?;
            let res = catch(|| e.entry.ty.uper_read(&mut r));
            let got = match res {
                Err(p) => return Err((format!("decode-panic:{}", panic_class(&p)), format!("{at}: decoding the produced bits panicked: {p}"))),
                Ok(Err(err)) => return Err((format!("decode-error:{}", kind_name(err.kind())), format!("{at}: decoding the produced bits failed with {}", kind_name(err.kind())))),
                Ok(Ok(v)) => v,
            };
            if !e.entry.ty.same(&**built, &*got) {
                return Err(("decode-mismatch".into(), format!("{at}: decoded value differs: wrote {} read {}", clip(&e.entry.ty.debug(&**built)), clip(&e.entry.ty.debug(&*got)))));
            }
            let after = catch(|| r.bits_remaining()).map_err(|p| ("bits_remaining-panic".to_string(), format!("{at}: bits_remaining() panicked after the read: {p}")))?;
            if before < after || before - after != *produced {
                return Err(("bits-consumed".into(), format!("{at}: writer produced {produced} bits, reader consumed {}", before as i64 - after as i64)));
            }
        }
        if clean {
            let rem = catch(|| r.bits_remaining()).map_err(|p| ("bits_remaining-panic".to_string(), format!("bits_remaining() panicked at the end: {p}")))?;
            if rem != 0 {
                return Err(("bits-remaining".into(), format!("{rem} bits remain after reading all messages back")));
            }
        }
    }
    if written.len() == 1 && filler == 0 {
        stats.bits.push((written[0].0, bytes, total));
    }
    Ok(())
}

fn clip(s: &str) -> String {
    if s.len() > 300 {
        format!("{}… ({} chars)", &s[..s.char_indices().nth(300).map(|(i, _)| i).unwrap_or(s.len())], s.len())
    } else {
        s.to_string()
    }
}

fn value_json(v: &Value) -> J {
    serde_json::to_value(v).unwrap()
}

fn history_json(zoo: &Zoo, msgs: &[(usize, Value)], filler: usize) -> J {
    json!({
        "filler_bits": filler,
        "messages": msgs.iter().map(|(ei, v)| {
            let e = &zoo.entries[*ei];
            json!({"module_text": e.text(), "module": e.module.name, "type": e.def.name, "value_brief": v.brief(), "value": value_json(v)})
        }).collect::<Vec<_>>(),
    })
}

pub fn find_entry(zoo: &Zoo, module: &str, ty: &str) -> Option<usize> {
    zoo.entries.iter().position(|e| e.module.name == module && e.def.name == ty)
}

fn history_from_json(zoo: &Zoo, j: &J) -> Result<(Vec<(usize, Value)>, usize), String> {
    let filler = j["filler_bits"].as_u64().unwrap_or(0) as usize;
    let mut msgs = Vec::new();
    for m in j["messages"].as_array().ok_or("messages")? {
        let ei = find_entry(zoo, m["module"].as_str().unwrap_or(""), m["type"].as_str().unwrap_or("")).ok_or_else(|| format!("type {}.{} is not in the compiled zoo", m["module"], m["type"]))?;
        let v: Value = serde_json::from_value(m["value"].clone()).map_err(|e| e.to_string())?;
        msgs.push((ei, v));
    }
    Ok((msgs, filler))
}

/// open known findings are excluded from generation by construction (DESIGN.md section 6)
pub fn value_cfg(report: &Report, conformance: bool, tier: Tier) -> ValueCfg {
    let mut cfg = ValueCfg { conformance, big_weight: tier.pick(1, 4), ..ValueCfg::default() };
    if report.known.any_open("fragmented-list-or-string") {
        cfg.max_big_elems = 16383;
    }
    if report.known.any_open("open-type-over-16k") {
        cfg.cap_open_types = true;
    }
    // (C02 and C16b need values inside their types: the reference encoder certifies that)
    cfg.foreign_chars = !conformance;
    cfg
}

const RULE_C01: &str = "programs: every definition of the compiled fixed type zoo (systematic kind x constraint x position table + random modules; roundtrip profile); inputs: schema-directed boundary-biased values (proptest); histories: 1..4 values of different zoo types written back-to-back into one UperWriter after 0..7 filler bits, read back in order from one UperReader (built from (byte_content, bit_len) and via as_reader()). Oracle: decoded == original (PartialEq of the generated type), bits consumed == bits produced per message, 0 bits remaining. Non-trivial: encoding succeeded and the value has an OPTIONAL/DEFAULT/extension decision, a CHOICE, a non-empty list/string, or the history has >= 2 messages; distinct = hash of (types, values, filler).";

pub fn run_c01(ctx: Ctx) -> i32 {
    let report = Report::new(ctx.clone(), RULE_C01);
    report.assumption("values are built through the public Reader trait (ValueReader bridge); BIT STRING values are in the canonical form the public constructors produce");
    report.assumption("values not representable in the generated Rust field type are counted (unbuildable) and skipped; encoder refusals and encoder panics end a history (nothing is claimed about a writer after Err)");
    let zoo = load_zoo();
    let replay = |case: &J| -> Result<(), Fail> {
        let (msgs, filler) = history_from_json(&zoo, case).map_err(|e| ("harness:replay".to_string(), e))?;
        check_history(&zoo, &msgs, filler, &mut HistStats::default())
    };
    if let Some(path) = &ctx.replay {
        let j = read_replay(path);
        report.eval(1);
        match replay(&j["case"]) {
            Ok(()) => println!("replay: case passes"),
            Err((key, msg)) => {
                report.fail(&key, &msg, j["case"].clone());
            }
        }
        return report.finish();
    }
    report.run_probes(&replay);
    let tier = ctx.tier;
    let n_entries = zoo.entries.len();
    let per_group = tier.pick(160u32, 2000u32);
    let bad = run_in_workers(&report, 16, std::time::Duration::from_secs(tier.pick(900, 10800)), &|report: &Report| {
        let cfg = value_cfg(report, false, tier);
        // one group per entry: the entry itself plus up to 3 pseudo-randomly chosen partners
        let groups = report.ctx.my_shards(n_entries as u64);
        groups.par_iter().for_each(|&g| {
            if report.too_many_violations() {
                return;
            }
            let g = g as usize;
            let h = report.ctx.derive("partners", g as u64);
            let k = 1 + (h % 4) as usize;
            let members: Vec<usize> = (0..k).map(|i| if i == 0 { g } else { ((h >> (8 * i)) as usize).wrapping_mul(2654435761) % n_entries }).collect();
            let strategies: Vec<BoxedStrategy<Value>> = members.iter().map(|&ei| gen::def_value_strategy(&zoo.entries[ei].module, &zoo.entries[ei].def, cfg)).collect();
            let strat = (0..8usize, strategies, any::<bool>().prop_map(|multi| !multi));
            let mut runner = report.ctx.runner("c01", g as u64, per_group);
            let mut local = Local::default();
            let failed = std::cell::Cell::new(false);
            let cell = std::cell::RefCell::new(&mut local);
            let result = runner.run(&strat, |(filler, values, single)| {
                // half of the cases: the group's own entry alone on a fresh writer
                let msgs: Vec<(usize, Value)> = if single { vec![(members[0], values[0].clone())] } else { members.iter().copied().zip(values.into_iter()).collect() };
                let filler = if single { 0 } else { filler };
                let before = msgs.len();
                let msgs: Vec<(usize, Value)> = msgs.into_iter().filter(|(ei, v)| !gen::def_excluded_by_findings(&zoo.entries[*ei].module, &zoo.entries[*ei].def, v, cfg)).collect();
                let excluded = before - msgs.len();
                let mut st = HistStats::default();
                let res = check_history(&zoo, &msgs, filler, &mut st);
                if !failed.get() {
                    let mut l = cell.borrow_mut();
                    l.eval();
                    l.class_n("messages-encoded", st.encoded as u64);
                    l.class_n("excluded-by-known-findings", excluded as u64);
                    l.class_n("unbuildable-values", st.unbuildable as u64);
                    l.class_n("encoder-panics", st.encode_panics as u64);
                    for k in &st.refused {
                        l.class(&format!("refused:{k}"));
                    }
                    if st.encoded > 0 {
                        let shapes: Vec<Shape> = msgs.iter().map(|(_, v)| shape_of(v)).collect();
                        let nontrivial = st.encoded >= 2 || shapes.iter().any(|s| s.has_choice || s.has_optional_decision || s.has_list_or_string);
                        if nontrivial {
                            l.nontrivial(hash_of(&(&msgs, filler)));
                        }
                        let max_len = shapes.iter().map(|s| s.max_len).max().unwrap_or(0);
                        if max_len >= 128 {
                            l.class("len>=128");
                        }
                        if max_len >= 16384 {
                            l.class("len>=16384");
                        }
                        if max_len >= 65536 {
                            l.class("len>=65536");
                        }
                        if shapes.iter().any(|s| s.depth >= 2) {
                            l.class("depth>=2");
                        }
                        if st.encoded >= 2 {
                            l.class("k>=2");
                        }
                        if filler % 8 != 0 {
                            l.class("unaligned-start");
                        }
                        if msgs.len() >= 2 && l.samples.len() < 2 {
                            l.sample(json!({"filler_bits": filler, "messages": msgs.iter().map(|(ei, v)| json!({"type": zoo.entries[*ei].id(), "asn1": vcore::print::type_text(&zoo.entries[*ei].def.ty), "value": v.brief()})).collect::<Vec<_>>()}));
                        }
                    }
                }
                res.map_err(|(key, msg)| {
                    failed.set(true);
                    TestCaseError::fail(format!("{key}\u{1}{msg}"))
                })
            });
            if let Err(proptest::test_runner::TestError::Fail(reason, (filler, values, single))) = result {
                let r = reason.message().to_string();
                let (key, msg) = r.split_once('\u{1}').unwrap_or(("unknown", &r));
                let msgs: Vec<(usize, Value)> = if single { vec![(members[0], values[0].clone())] } else { members.iter().copied().zip(values.into_iter()).collect() };
                report.fail(key, msg, history_json(&zoo, &msgs, if single { 0 } else { filler }));
            }
            report.merge_local(&mut local);
        });
    });
    dead_workers_are_infra(&report, &bad);
    report.extra("zoo_types", json!(n_entries));
    report.extra("zoo_modules", json!(zoo.zmods.len()));
    for must in ["len>=128", "len>=16384", "k>=2", "unaligned-start", "depth>=2"] {
        if report.class_count(must) == 0 && !(must == "len>=16384" && report.known.any_open("fragmented-list-or-string") && false) {
            report.infra(&format!("generator fault: class {must} never generated"));
        }
    }
    report.finish()
}

// ---------------------------------------------------------------------------------------------
// C02

pub fn check_c02(zoo: &Zoo, ei: usize, v: &Value, note: &mut Vec<&'static str>) -> Result<Option<(Vec<bool>, usize)>, Fail> {
    let e = &zoo.entries[ei];
    // the reference first: it certifies that the value is inside its type
    let want = match refcodec::encode_def(&e.module, &e.def, v) {
        Ok(s) => s.bits,
        Err(_) => {
            note.push("value-outside-type");
            return Ok(None);
        }
    };
    // the reference validates itself on every case (DESIGN.md 3.4 (a))
    match refcodec::decode_def(&e.module, &e.def, &want) {
        Ok((back, used)) if &back == v && used == want.len() => {}
        other => return Err(("harness:reference-selftest".into(), format!("{}: reference decode(encode(v)) != v: {:?}", e.id(), other.map(|(b, u)| (b.brief(), u))))),
    }
    let built = match e.build(v) {
        Ok(b) => b,
        Err(_) => {
            note.push("unbuildable");
            return Ok(None);
        }
    };
    // (the documented refusal of 'first addition absent, later present' (C03) leaves only the reader
    // half of the property: a peer may send that canonical encoding)
    let written = match encode(e, &*built) {
        Enc::Ok { bytes, bit_len } => Some((bytes, bit_len)),
        Enc::Err("ExtensionFieldsInconsistent") => {
            note.push("refused:ExtensionFieldsInconsistent");
            None
        }
        Enc::Err(k) => return Err((format!("refused-in-profile:{k}"), format!("{}: the writer refuses a value inside the profile with {k}", e.id()))),
        Enc::Panic(p) => return Err((format!("encode-panic:{}", panic_class(&p)), format!("{}: the writer panicked on a value inside the profile: {p}", e.id()))),
    };
    let got: Vec<bool> = match &written {
        Some((bytes, bit_len)) => bits_of(bytes).into_iter().take(*bit_len).collect(),
        None => want.clone(),
    };
    let bit_len = got.len();
    if got != want {
        let first = got.iter().zip(want.iter()).position(|(a, b)| a != b).unwrap_or(got.len().min(want.len()));
        let show = |b: &[bool]| {
            let from = first.saturating_sub(16);
            let to = (first + 32).min(b.len());
            format!("…{}… ({} bits)", bitstr(&b[from.min(b.len())..to]), b.len())
        };
        return Err(("bits-differ".into(), format!("{}: writer bits differ from X.691 at bit {first}: got {} want {}", e.id(), show(&got), show(&want))));
    }
    // the reader on the *reference* bits
    let ref_bytes = vcore::bitmodel::bytes_of(&want);
    match decode(e, &ref_bytes, want.len()) {
        Dec::Panic(p) => return Err((format!("decode-panic:{}", panic_class(&p)), format!("{}: reading the canonical encoding panicked: {p}", e.id()))),
        Dec::Err(k) => return Err((format!("decode-error:{k}"), format!("{}: reading the canonical encoding failed with {k}", e.id()))),
        Dec::Ok(val, pos) => {
            if !e.entry.ty.same(&*built, &*val) {
                return Err(("decode-mismatch".into(), format!("{}: the canonical encoding decodes to {} instead of {}", e.id(), clip(&e.entry.ty.debug(&*val)), clip(&e.entry.ty.debug(&*built)))));
            }
            if pos != want.len() {
                return Err(("bits-consumed".into(), format!("{}: canonical encoding has {} bits, reader consumed {pos}", e.id(), want.len())));
            }
        }
    }
    Ok(Some((want, bit_len)))
}

const RULE_C02: &str = "programs: every definition of the conformance-profile part of the compiled zoo; inputs: schema-directed boundary-biased values restricted to DESIGN.md section 4 (proptest). Oracle: UperWriter bits == reference X.691 encoder bits (vcore::refcodec) bit for bit; UperReader on the reference bits returns the value and consumes exactly them. Non-trivial: the encoding has > 0 bits and the value has a length/presence/index decision (OPTIONAL/DEFAULT/extension, CHOICE, list/string) or is an integer/enumerated with range > 1; distinct = hash of (type, bits).";

pub fn run_c02(ctx: Ctx) -> i32 {
    let report = Report::new(ctx.clone(), RULE_C02);
    report.assumption("trusted base: vcore::refcodec + vcore::refper (written from X.691 02/2021; unit-tested against a hand-derived 98-bit vector and vectors pinned in /repo/tests; self round trip on every case)");
    report.assumption("the abstract schema the ASN.1 text was printed from is the source of truth; the whole pipeline text -> parser -> constants -> runtime is inside the checked path");
    let zoo = load_zoo();
    let replay = |c: &J| -> Result<(), Fail> {
        let ei = find_entry(&zoo, c["module"].as_str().unwrap_or(""), c["type"].as_str().unwrap_or("")).ok_or_else(|| ("harness:replay".to_string(), "type not in the compiled zoo".to_string()))?;
        let v: Value = serde_json::from_value(c["value"].clone()).map_err(|e| ("harness:replay".to_string(), e.to_string()))?;
        check_c02(&zoo, ei, &v, &mut Vec::new()).map(|_| ())
    };
    if let Some(path) = &ctx.replay {
        let j = read_replay(path);
        report.eval(1);
        match replay(&j["case"]) {
            Ok(()) => println!("replay: case passes"),
            Err((key, msg)) => {
                report.fail(&key, &msg, j["case"].clone());
            }
        }
        return report.finish();
    }
    report.run_probes(&replay);
    let tier = ctx.tier;
    let conf: Vec<usize> = (0..zoo.entries.len()).filter(|i| zoo.entries[*i].conformance).collect();
    let per_entry = tier.pick(150u32, 2500u32);
    let bad = run_in_workers(&report, 16, std::time::Duration::from_secs(tier.pick(900, 10800)), &|report: &Report| {
        let cfg = value_cfg(report, true, tier);
        report.ctx.my_shards(conf.len() as u64).par_iter().for_each(|&k| {
            if report.too_many_violations() {
                return;
            }
            let ei = conf[k as usize];
            let e = &zoo.entries[ei];
            let strat = gen::def_value_strategy(&e.module, &e.def, cfg);
            let mut runner = report.ctx.runner("c02", ei as u64, per_entry);
            let mut local = Local::default();
            let failed = std::cell::Cell::new(false);
            let cell = std::cell::RefCell::new(&mut local);
            let result = runner.run(&strat, |v| {
                let mut notes = Vec::new();
                if gen::def_excluded_by_findings(&e.module, &e.def, &v, cfg) {
                    if !failed.get() {
                        cell.borrow_mut().class("excluded-by-known-findings");
                    }
                    return Ok(());
                }
                let res = check_c02(&zoo, ei, &v, &mut notes);
                if !failed.get() {
                    let mut l = cell.borrow_mut();
                    l.eval();
                    for n in &notes {
                        l.class(n);
                    }
                    if let Ok(Some((bits, _))) = &res {
                        l.class("compared");
                        let sh = shape_of(&v);
                        let decision = sh.has_choice || sh.has_optional_decision || sh.has_list_or_string || !bits.is_empty();
                        if !bits.is_empty() && decision {
                            l.nontrivial(hash_of(&(ei, bits)));
                        }
                        if sh.max_len >= 128 {
                            l.class("len>=128");
                        }
                        if sh.max_len >= 16384 {
                            l.class("len>=16384");
                        }
                        if sh.has_choice {
                            l.class("choice");
                        }
                        if sh.has_optional_decision {
                            l.class("absent-component");
                        }
                        l.class(&format!("kind:{}", e.module.resolve(&e.def.ty).kind()));
                        if l.samples.len() < 2 && bits.len() > 8 && bits.len() < 400 {
                            l.sample(json!({"type": e.id(), "asn1": vcore::print::type_text(&e.def.ty), "value": v.brief(), "bits": bitstr(bits)}));
                        }
                    }
                }
                res.map(|_| ()).map_err(|(key, msg)| {
                    failed.set(true);
                    TestCaseError::fail(format!("{key}\u{1}{msg}"))
                })
            });
            if let Err(proptest::test_runner::TestError::Fail(reason, v)) = result {
                let r = reason.message().to_string();
                let (key, msg) = r.split_once('\u{1}').unwrap_or(("unknown", &r));
                report.fail(key, msg, json!({"module_text": e.text(), "module": e.module.name, "type": e.def.name, "value_brief": v.brief(), "value": value_json(&v)}));
            }
            report.merge_local(&mut local);
        });
    });
    dead_workers_are_infra(&report, &bad);
    report.extra("zoo_types_in_profile", json!(conf.len()));
    if report.class_count("compared") == 0 {
        report.infra("no case was compared");
    }
    report.finish()
}

// ---------------------------------------------------------------------------------------------
// C16 part b: compiled SETs, wire order and presence-bit order against the reference

const RULE_C16B: &str = "part b (compiled): a zoo family of SET (and SEQUENCE) definitions with 2..5 components - mixed explicit tags of the four classes, untagged builtin types, untagged references to tagged / untagged definitions and to an untagged CHOICE, with and without extension marker, each in three root permutations - compiled through the real pipeline; generated values (proptest); UPER bits and presence-bit order == reference, which orders canonically on its own (X.680 8.6). Non-trivial: canonical order != textual order; distinct = (type, bits).";

pub fn run_c16b(ctx: Ctx) -> i32 {
    let report = Report::new(ctx.clone(), RULE_C16B);
    let zoo = load_zoo();
    let replay = |c: &J| -> Result<(), Fail> {
        if c["part"].as_str() != Some("b") {
            return Ok(());
        }
        let ei = find_entry(&zoo, c["module"].as_str().unwrap_or(""), c["type"].as_str().unwrap_or("")).ok_or_else(|| ("harness:replay".to_string(), "type not in the compiled zoo".to_string()))?;
        let v: Value = serde_json::from_value(c["value"].clone()).map_err(|e| ("harness:replay".to_string(), e.to_string()))?;
        check_c02(&zoo, ei, &v, &mut Vec::new()).map(|_| ())
    };
    if let Some(path) = &ctx.replay {
        let j = read_replay(path);
        report.eval(1);
        match replay(&j["case"]) {
            Ok(()) => println!("replay: case passes"),
            Err((key, msg)) => {
                report.fail(&key, &msg, j["case"].clone());
            }
        }
        return report.finish();
    }
    let tier = ctx.tier;
    let family: Vec<usize> = (0..zoo.entries.len()).filter(|i| zoo.entries[*i].group == "c16" && (zoo.entries[*i].def.name.starts_with("Set") || zoo.entries[*i].def.name.starts_with("Seq"))).collect();
    let per_entry = tier.pick(300u32, 5000u32);
    let bad = run_in_workers(&report, 16, std::time::Duration::from_secs(tier.pick(600, 7200)), &|report: &Report| {
        let cfg = value_cfg(report, true, tier);
        report.ctx.my_shards(family.len() as u64).par_iter().for_each(|&k| {
            if report.too_many_violations() {
                return;
            }
            let ei = family[k as usize];
            let e = &zoo.entries[ei];
            let reordered = match &e.def.ty {
                Type::Set(f) => refcodec::comp_order(&e.module, f, true).map(|o| o.iter().enumerate().any(|(a, b)| a != *b)).unwrap_or(false),
                _ => false,
            };
            let strat = gen::def_value_strategy(&e.module, &e.def, cfg);
            let mut runner = report.ctx.runner("c16b", ei as u64, per_entry);
            let mut local = Local::default();
            let failed = std::cell::Cell::new(false);
            let cell = std::cell::RefCell::new(&mut local);
            let result = runner.run(&strat, |v| {
                let mut notes = Vec::new();
                let res = check_c02(&zoo, ei, &v, &mut notes);
                if !failed.get() {
                    let mut l = cell.borrow_mut();
                    l.eval();
                    if let Ok(Some((bits, _))) = &res {
                        l.class(if reordered { "b:set-reordered" } else if matches!(e.def.ty, Type::Set(_)) { "b:set-textual" } else { "b:sequence" });
                        if reordered {
                            l.nontrivial(hash_of(&(ei, bits)));
                            if l.samples.len() < 1 {
                                l.sample(json!({"part": "b", "type": e.id(), "asn1": vcore::print::type_text(&e.def.ty), "value": v.brief(), "bits": bitstr(bits)}));
                            }
                        }
                    }
                }
                res.map(|_| ()).map_err(|(key, msg)| {
                    failed.set(true);
                    TestCaseError::fail(format!("{key}\u{1}{msg}"))
                })
            });
            if let Err(proptest::test_runner::TestError::Fail(reason, v)) = result {
                let r = reason.message().to_string();
                let (key, msg) = r.split_once('\u{1}').unwrap_or(("unknown", &r));
                report.fail(&format!("b:{key}"), msg, json!({"part": "b", "module_text": e.text(), "module": e.module.name, "type": e.def.name, "asn1": vcore::print::type_text(&e.def.ty), "value_brief": v.brief(), "value": value_json(&v)}));
            }
            report.merge_local(&mut local);
        });
    });
    dead_workers_are_infra(&report, &bad);
    report.extra("part_b_types", json!(family.len()));
    if report.class_count("b:set-reordered") == 0 && report.violation_count() == 0 {
        report.infra("generator fault: no SET whose canonical order differs from the textual order");
    }
    report.finish()
}
