//! C03 — OPTIONAL/DEFAULT/extension presence semantics for every SEQUENCE/SET shape
//! (bounded-exhaustive: shapes with <= N components x all presence patterns).

use crate::common::*;
use proptest::prelude::RngCore;
use rayon::prelude::*;
use serde_json::{json, Value as J};
use vcore::bitmodel::{bits_of, bitstr};
use vcore::harness::*;
use vcore::refcodec;
use vcore::schema::*;

type Fail = (String, String);

fn fields_of(e: &ZooEntry) -> Option<(&Fields, bool)> {
    match &e.def.ty {
        Type::Sequence(f) => Some((f, false)),
        Type::Set(f) => Some((f, true)),
        _ => None,
    }
}

/// a payload value for the component type; `differ_from`: must not equal this value
fn payload(m: &Module, ty: &Type, rng: &mut impl RngCore, differ_from: Option<&Value>) -> Value {
    for _ in 0..64 {
        let x = rng.next_u32();
        let v = match m.resolve(ty) {
            Type::Boolean => Value::Bool(x & 1 == 1),
            Type::Null => Value::Null,
            Type::Integer { range: Some(r), .. } => {
                let (lb, ub) = (r.lb.as_ref().unwrap().value, r.ub.as_ref().unwrap().value);
                // boundary biased
                match x % 4 {
                    0 => Value::Int(lb),
                    1 => Value::Int(ub),
                    _ => Value::Int(lb + ((x >> 2) as i128 % (ub - lb + 1))),
                }
            }
            Type::Str { size: Some(s), .. } => {
                let n = s.lb() as usize + ((x as usize) % (s.ub().unwrap() as usize - s.lb() as usize + 1));
                let alpha = ['a', 'b', 'z', 'A', '0', ' ', '~', '\u{0}', '\u{7f}'];
                Value::Str((0..n).map(|i| alpha[((x >> (3 * i + 4)) as usize) % alpha.len()]).collect())
            }
            Type::Enumerated { items, .. } => Value::Enum((x as usize) % items.len()),
            // a nested structure (the nested family uses plain ones: all components mandatory)
            Type::Sequence(f) | Type::Set(f) => Value::Seq(f.comps.iter().map(|c| Some(payload(m, &c.ty, rng, None))).collect()),
            other => panic!("C03 payload for {}", other.kind()),
        };
        let v = refcodec::wrap_for(m, ty, v);
        if differ_from != Some(&v) {
            return v;
        }
    }
    panic!("cannot find a payload different from the default")
}

#[derive(Clone, Debug)]
pub struct Case {
    pub entry: usize,
    /// per component: is it "present" (OPTIONAL/addition: Some; DEFAULT: value != default)
    pub pattern: Vec<bool>,
    pub value: Value,
}

pub fn check_case(zoo: &Zoo, c: &Case) -> Result<&'static str, Fail> {
    let e = &zoo.entries[c.entry];
    let (f, is_set) = fields_of(e).ok_or_else(|| ("harness".to_string(), "not a SEQUENCE/SET".to_string()))?;
    let n_root = f.root.unwrap_or(f.comps.len());
    let id = e.id();
    let built = e.build(&c.value).map_err(|err| ("harness:build".to_string(), format!("{id}: cannot build the value: {err}")))?;
    let first_add_absent_later_present = n_root < f.comps.len() && !c.pattern[n_root] && c.pattern[n_root + 1..].iter().any(|p| *p);
    let (bytes, bit_len) = match encode(e, &*built) {
        Enc::Panic(p) => return Err((format!("encode-panic:{}", panic_class(&p)), format!("{id} pattern {:?}: the encoder panicked: {p}", c.pattern))),
        Enc::Err(kind) => {
            // (4) "The encoder may refuse a value only with the documented inconsistent-extension
            //      error, and only when the first extension addition is absent while a later one is present."
            if kind == "ExtensionFieldsInconsistent" && first_add_absent_later_present {
                // The pattern is legal on the wire (X.691 19.7/19.8: one bit per addition), so a peer
                // may send what this writer refuses: "absent components decode as absent" for
                // every presence pattern is checked on the reference encoding.
                let want = refcodec::encode_def(&e.module, &e.def, &c.value).map_err(|x| ("harness:reference".to_string(), format!("{id}: {x}")))?.bits;
                let bytes = vcore::bitmodel::bytes_of(&want);
                match decode(e, &bytes, want.len()) {
                    Dec::Panic(p) => return Err((format!("decode-panic:{}", panic_class(&p)), format!("{id} pattern {:?} (X.691 encoding of the pattern the writer refuses): the decoder panicked: {p}", c.pattern))),
                    Dec::Err(k) => return Err((format!("refused-pattern:decode-error:{k}"), format!("{id} pattern {:?}: decoding the X.691 encoding {} of the pattern the writer refuses failed with {k}", c.pattern, bitstr(&want)))),
                    Dec::Ok(val, pos) => {
                        let back = e.extract(&*val).map_err(|x| ("harness:extract".to_string(), x))?;
                        if back != c.value {
                            return Err(("refused-pattern:decode-presence".into(), format!("{id} pattern {:?}: the X.691 encoding {} of {} (a pattern the writer refuses) is read as {}", c.pattern, bitstr(&want), c.value.brief(), back.brief())));
                        }
                        if pos != want.len() {
                            return Err(("refused-pattern:bits-consumed".into(), format!("{id} pattern {:?}: {} bits in the X.691 encoding, {pos} consumed", c.pattern, want.len())));
                        }
                    }
                }
                return Ok("documented-refusal");
            }
            return Err((
                format!("refusal:{kind}{}", if first_add_absent_later_present { "" } else { ":pattern-not-documented" }),
                format!("{id} pattern {:?}: the encoder refused the value with {kind} (first addition absent & later present: {first_add_absent_later_present})", c.pattern),
            ));
        }
        Enc::Ok { bytes, bit_len } => (bytes, bit_len),
    };
    let got: Vec<bool> = bits_of(&bytes).into_iter().take(bit_len).collect();
    // (1) preamble computed directly from shape and pattern
    let order = refcodec::comp_order(&e.module, f, is_set).map_err(|x| ("harness".to_string(), x))?;
    let mut pre: Vec<bool> = Vec::new();
    if f.root.is_some() {
        pre.push(c.pattern[n_root..].iter().any(|p| *p)); // "the extension bit is set iff an extension addition is present"
    }
    for &i in order.iter().filter(|i| **i < n_root) {
        if f.comps[i].presence != Presence::Mandatory {
            pre.push(c.pattern[i]); // "exactly one presence bit per OPTIONAL/DEFAULT root component in order"
        }
    }
    if got.len() < pre.len() || got[..pre.len()] != pre[..] {
        return Err((
            "preamble".into(),
            format!("{id} pattern {:?}: preamble is {} but must be {} (extension bit, then one bit per OPTIONAL/DEFAULT root component in order)", c.pattern, bitstr(&got[..pre.len().min(got.len())]), bitstr(&pre)),
        ));
    }
    // (2) the whole encoding equals the reference
    let want = refcodec::encode_def(&e.module, &e.def, &c.value).map_err(|x| ("harness:reference".to_string(), format!("{id}: {x}")))?.bits;
    if got != want {
        let first = got.iter().zip(want.iter()).position(|(a, b)| a != b).unwrap_or(got.len().min(want.len()));
        return Err(("bits-differ".into(), format!("{id} pattern {:?}: bits differ from X.691 at bit {first}: got {} want {}", c.pattern, bitstr(&got), bitstr(&want))));
    }
    // (3) decode: absent -> None, omitted DEFAULT -> default value
    match decode(e, &bytes, bit_len) {
        Dec::Panic(p) => return Err((format!("decode-panic:{}", panic_class(&p)), format!("{id} pattern {:?}: the decoder panicked: {p}", c.pattern))),
        Dec::Err(k) => return Err((format!("decode-error:{k}"), format!("{id} pattern {:?}: decoding failed with {k}", c.pattern))),
        Dec::Ok(val, pos) => {
            let back = e.extract(&*val).map_err(|x| ("harness:extract".to_string(), x))?;
            if back != c.value {
                return Err(("decode-presence".into(), format!("{id} pattern {:?}: wrote {} but read {}", c.pattern, c.value.brief(), back.brief())));
            }
            if pos != bit_len {
                return Err(("bits-consumed".into(), format!("{id}: {bit_len} bits produced, {pos} consumed")));
            }
        }
    }
    Ok("encoded")
}

pub fn cases_of(zoo: &Zoo, entry: usize, payloads: usize, rng: &mut impl RngCore) -> Vec<Case> {
    let e = &zoo.entries[entry];
    let (f, _) = match fields_of(e) {
        Some(x) => x,
        None => return vec![],
    };
    let n_root = f.root.unwrap_or(f.comps.len());
    // decision components
    let deciders: Vec<usize> = (0..f.comps.len()).filter(|&i| i >= n_root || f.comps[i].presence != Presence::Mandatory).collect();
    let mut out = Vec::new();
    let k = deciders.len();
    // the decision vectors: all 2^k of them, or - for the wide family - a sample built around the ends
    let masks: Vec<Vec<bool>> = if k <= 12 {
        (0..(1usize << k)).map(|mask| (0..k).map(|b| mask & (1 << b) != 0).collect()).collect()
    } else {
        let mut m: Vec<Vec<bool>> = vec![vec![false; k], vec![true; k]];
        let single = |i: usize| (0..k).map(|b| b == i).collect::<Vec<bool>>();
        m.push(single(0));
        m.push(single(k - 1));
        m.push((0..k).map(|b| b == 0 || b == k - 1).collect());
        for i in [62usize, 63, 64, 65] {
            if i < k {
                m.push(single(i));
                m.push((0..k).map(|b| b == 0 || b == i).collect());
            }
        }
        for r in 0..24u32 {
            // random vectors of several densities; every other one with the first flag set
            let density = [2u32, 8, 14][(r % 3) as usize];
            let mut v: Vec<bool> = (0..k).map(|_| rng.next_u32() % 16 < density).collect();
            if r % 2 == 0 {
                v[0] = true;
            }
            m.push(v);
        }
        m
    };
    for mask in masks {
        for _ in 0..payloads {
            let mut pattern = vec![true; f.comps.len()];
            for (b, &i) in deciders.iter().enumerate() {
                pattern[i] = mask[b];
            }
            let slots: Vec<Option<Value>> = f
                .comps
                .iter()
                .enumerate()
                .map(|(i, c)| match (&c.presence, pattern[i]) {
                    (Presence::Default(d), false) => Some(refcodec::lit_value(&e.module, &c.ty, &d.lit).expect("default")),
                    (Presence::Default(d), true) => {
                        let dv = refcodec::lit_value(&e.module, &c.ty, &d.lit).expect("default");
                        Some(payload(&e.module, &c.ty, rng, Some(&dv)))
                    }
                    (_, false) => None,
                    (_, true) => Some(payload(&e.module, &c.ty, rng, None)),
                })
                .collect();
            out.push(Case { entry, pattern, value: Value::Seq(slots) });
        }
    }
    out
}

fn case_json(zoo: &Zoo, c: &Case) -> J {
    let e = &zoo.entries[c.entry];
    json!({"module_text": e.text(), "module": e.module.name, "type": e.def.name, "asn1": vcore::print::type_text(&e.def.ty), "pattern": c.pattern, "value_brief": c.value.brief(), "value": serde_json::to_value(&c.value).unwrap()})
}

const RULE: &str = "bounded-exhaustive: every SEQUENCE and SET shape with <= N components (N = 3 quick, 5 thorough; each component mandatory / OPTIONAL / DEFAULT, extension marker at every position or absent; component types rotate through INTEGER(0..255), BOOLEAN, IA5String(SIZE(1..3)), INTEGER(-8..7), a referenced ENUMERATED, NULL; a second family with <= 2 components whose types are a reference to an alias of INTEGER, a reference to a plain SEQUENCE and an inline plain SEQUENCE (types that bring a scope of their own); SET shapes carry explicit tags that reverse the root order), compiled through the real pipeline; for every shape all 2^k presence patterns (a third, wide family - SEQUENCE / SET with 63, 64, 65, 70, 130 OPTIONAL/DEFAULT root components and extensible SEQUENCEs with 63, 64, 65, 70 extension additions - has its patterns sampled: none, all, single flags at the ends and at 62..65, pairs with the first flag, 24 random vectors) (k = OPTIONAL/DEFAULT root components + extension additions; DEFAULT: equal to / different from the default) x 8 (thorough: 16) random payloads. Oracle: preamble computed from shape and pattern; whole encoding == reference; decode returns the written presence; Err only ExtensionFieldsInconsistent and only for 'first addition absent, later present' - and for that pattern the reference encoder's bits (what a peer may send) must decode to the pattern. Non-trivial: shape has >= 1 OPTIONAL/DEFAULT/extension component; distinct = (shape, pattern, payload).";

pub fn run(ctx: Ctx) -> i32 {
    let report = Report::new(ctx.clone(), RULE);
    report.assumption("the converse of the refusal rule is not demanded ('may refuse'): a successfully encoded inconsistent pattern is checked like any other");
    let zoo = load_zoo();
    let replay = |c: &J| -> Result<(), Fail> {
        let ei = crate::uper::find_entry(&zoo, c["module"].as_str().unwrap_or(""), c["type"].as_str().unwrap_or("")).ok_or_else(|| ("harness:replay".to_string(), "type not in the compiled zoo".to_string()))?;
        let value: Value = serde_json::from_value(c["value"].clone()).map_err(|e| ("harness:replay".to_string(), e.to_string()))?;
        let pattern: Vec<bool> = c["pattern"].as_array().map(|a| a.iter().map(|b| b.as_bool().unwrap_or(false)).collect()).unwrap_or_default();
        check_case(&zoo, &Case { entry: ei, pattern, value }).map(|_| ())
    };
    if let Some(path) = &ctx.replay {
        let j = read_replay(path);
        report.eval(1);
        match replay(&j["case"]) {
            Ok(()) => println!("replay: case passes"),
            Err((key, msg)) => {
                report.fail(&key, &msg, j["case"].clone());
            }
        }
        return report.finish();
    }
    report.run_probes(&replay);
    let shapes: Vec<usize> = (0..zoo.entries.len()).filter(|i| (zoo.entries[*i].group == "c03" || zoo.entries[*i].group == "c03wide") && fields_of(&zoo.entries[*i]).is_some()).collect();
    let n_max = zoo.zmods.iter().filter(|z| z.group == "c03").filter_map(|z| z.meta["n_max"].as_u64()).max().unwrap_or(0);
    let bad = run_in_workers(&report, 16, std::time::Duration::from_secs(ctx.tier.pick(600, 7200)), &|report: &Report| {
        report.ctx.my_shards(shapes.len() as u64).par_iter().for_each(|&k| {
            let ei = shapes[k as usize];
            let mut rng = report.ctx.rng("c03", ei as u64);
            let mut local = Local::default();
            let (f, _) = fields_of(&zoo.entries[ei]).unwrap();
            let n_root = f.root.unwrap_or(f.comps.len());
            let has_decision = f.comps.iter().enumerate().any(|(i, c)| i >= n_root || c.presence != Presence::Mandatory);
            for c in cases_of(&zoo, ei, report.ctx.tier.pick(8, 16), &mut rng) {
                local.eval();
                if has_decision {
                    local.nontrivial(hash_of(&(ei, &c.pattern, &c.value)));
                }
                match check_case(&zoo, &c) {
                    Ok(what) => {
                        local.class(what);
                        if c.pattern.len() == 3 && c.pattern.iter().any(|p| !*p) {
                            local.sample(json!({"type": zoo.entries[ei].id(), "asn1": vcore::print::type_text(&zoo.entries[ei].def.ty), "pattern": c.pattern, "value": c.value.brief(), "outcome": what}));
                        }
                    }
                    Err((key, msg)) => {
                        report.fail(&key, &msg, case_json(&zoo, &c));
                    }
                }
            }
            report.merge_local(&mut local);
        });
    });
    dead_workers_are_infra(&report, &bad);
    report.exhaustive(&format!("all SEQUENCE and SET shapes with <= {n_max} components ({} compiled types) x all presence patterns", shapes.len()));
    report.extra("shapes", json!(shapes.len()));
    if shapes.is_empty() {
        report.infra("no C03 shapes in the compiled zoo");
    }
    report.finish()
}
