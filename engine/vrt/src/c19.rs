//! C19 — the diagnostic feature flag does not change decoding results: the same vector file is run
//! through two builds of the same runner (default features / +descriptive-deserialize-errors) and
//! the outcome tables must be identical line by line.

use crate::c04::{apply_faults, fault_strategy_pub, random_bytes_strategy_pub};
use crate::common::*;
use proptest::prelude::*;
use proptest::strategy::ValueTree;
use serde_json::{json, Value as J};
use vcore::gen::{self, ValueCfg};
use vcore::harness::*;

fn run_runner(bin: &str, vectors: &std::path::Path, out: &std::path::Path) -> Result<Vec<String>, String> {
    let status = std::process::Command::new(bin).arg(vectors).arg(out).stdout(std::process::Stdio::null()).stderr(std::process::Stdio::null()).status().map_err(|e| format!("cannot run {bin}: {e}"))?;
    if !status.success() {
        return Err(format!("{bin} ended with {status}"));
    }
    Ok(std::fs::read_to_string(out).map_err(|e| e.to_string())?.lines().map(|s| s.to_string()).collect())
}

const RULE: &str = "a vector file per run: (zoo type, bytes, bit length) from valid UPER encodings of generated values, their 1..3-fault mutations and random bytes (the generators of C04, proptest, seeded); the same runner binary built twice from the current tree - default features and +descriptive-deserialize-errors - prints per vector `Ok <hash of Debug of the value>` or `Err <kind + payload without backtraces>` and the reader position; the two tables must be identical line by line (a panic in only one configuration is a violation of C19). Non-trivial: the reader consumed >= 8 bits; distinct = hash of the vector.";

pub fn run(ctx: Ctx) -> i32 {
    let report = Report::new(ctx.clone(), RULE);
    let (Ok(bin_a), Ok(bin_b)) = (std::env::var("VERIF_VDIFF_A"), std::env::var("VERIF_VDIFF_B")) else {
        report.infra("VERIF_VDIFF_A / VERIF_VDIFF_B not set (the check driver builds the two runner binaries)");
        return report.finish();
    };
    let tmp = std::env::temp_dir().join(format!("verif-c19-{}-{}", std::process::id(), ctx.seed));
    let _ = std::fs::create_dir_all(&tmp);
    let compare = |lines: &[String]| -> Result<(Vec<String>, Vec<String>), String> {
        let vf = tmp.join("vectors.jsonl");
        std::fs::write(&vf, lines.join("\n")).map_err(|e| e.to_string())?;
        let a = run_runner(&bin_a, &vf, &tmp.join("a.out"))?;
        let b = run_runner(&bin_b, &vf, &tmp.join("b.out"))?;
        Ok((a, b))
    };
    if let Some(path) = &ctx.replay {
        let j = read_replay(path);
        report.eval(1);
        match compare(&[j["case"]["vector"].to_string()]) {
            Err(e) => report.infra(&e),
            Ok((a, b)) => {
                if a != b {
                    report.fail("outcome-differs", &format!("default: {:?} / with feature: {:?}", a, b), j["case"].clone());
                } else {
                    println!("replay: case passes ({:?})", a);
                }
            }
        }
        let _ = std::fs::remove_dir_all(&tmp);
        return report.finish();
    }
    let zoo = load_zoo();
    let tier = ctx.tier;
    let (n_rand, n_mut) = tier.pick((12usize, 25usize), (300usize, 600usize));
    let cfg = ValueCfg { big_weight: 0, max_big: 300, max_big_elems: 300, conformance: false, out_of_root: true, cap_open_types: true, hard_limit: None, foreign_chars: false };
    let mut vectors: Vec<String> = Vec::new();
    for (ei, e) in zoo.entries.iter().enumerate() {
        let mut runner = ctx.runner("c19", ei as u64, 1);
        let rnd = random_bytes_strategy_pub();
        for _ in 0..n_rand {
            if let Ok(t) = rnd.new_tree(&mut runner) {
                let (bytes, bit_len) = t.current();
                vectors.push(json!({"module": e.module.name, "type": e.def.name, "bytes": hex(&bytes), "bit_len": bit_len, "origin": "random"}).to_string());
            }
        }
        let values = gen::def_value_strategy(&e.module, &e.def, cfg);
        let faults = proptest::collection::vec(fault_strategy_pub(), 0..4);
        for _ in 0..n_mut {
            if let (Ok(v), Ok(f)) = (values.new_tree(&mut runner), faults.new_tree(&mut runner)) {
                let (v, f) = (v.current(), f.current());
                if let Some(Enc::Ok { bytes, bit_len }) = e.build(&v).ok().map(|b| encode(e, &*b)) {
                    let (bytes, bit_len) = apply_faults(&bytes, bit_len, &f);
                    vectors.push(json!({"module": e.module.name, "type": e.def.name, "bytes": hex(&bytes), "bit_len": bit_len, "origin": if f.is_empty() { "valid" } else { "mutated" }}).to_string());
                }
            }
        }
    }
    match compare(&vectors) {
        Err(e) => report.infra(&e),
        Ok((a, b)) => {
            if a.len() != vectors.len() || b.len() != vectors.len() {
                report.infra(&format!("{} vectors but {} / {} outcome lines", vectors.len(), a.len(), b.len()));
            }
            let mut samples = 0;
            for (i, v) in vectors.iter().enumerate() {
                let (la, lb) = (a.get(i).cloned().unwrap_or_default(), b.get(i).cloned().unwrap_or_default());
                report.eval(1);
                let consumed: usize = la.rsplit("pos=").next().and_then(|s| s.trim().parse().ok()).unwrap_or(0);
                if consumed >= 8 {
                    report.nontrivial(hash_of(v));
                }
                report.class(la.split_whitespace().next().unwrap_or("?"), 1);
                let vj: J = serde_json::from_str(v).unwrap_or(J::Null);
                report.class(&format!("origin:{}", vj["origin"].as_str().unwrap_or("?")), 1);
                if la != lb {
                    let kind = |l: &str| l.split(|c: char| c == '(' || c.is_whitespace()).take(2).collect::<Vec<_>>().join(":");
                    report.fail(&format!("outcome-differs:{}-vs-{}", kind(&la), kind(&lb)), &format!("{}.{}: default build: `{la}` / build with descriptive-deserialize-errors: `{lb}`", vj["module"].as_str().unwrap_or(""), vj["type"].as_str().unwrap_or("")), json!({"vector": vj, "default": la, "with_feature": lb}));
                } else if samples < 6 && consumed >= 8 && i % 997 == 0 {
                    samples += 1;
                    report.sample(json!({"vector": vj, "outcome_in_both_builds": la}));
                }
            }
        }
    }
    let _ = std::fs::remove_dir_all(&tmp);
    let total = report.class_count("Ok") + report.class_count("Err");
    for must in ["Ok", "Err"] {
        if total > 0 && report.class_count(must) * 5 < total && report.violation_count() == 0 {
            report.infra(&format!("generator fault: outcome class {must} is below 20% of the vectors"));
        }
    }
    report.extra("vectors", json!(vectors.len()));
    report.finish()
}
