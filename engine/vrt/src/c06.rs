//! C06 — the encoder rejects constraint-violating values and never emits a wrong encoding;
//! out-of-root values of extensible constraints are encoded in the extension form and round-trip.

use crate::common::*;
use asn1rs::descriptor::{choice, common as dcommon, enumerated, Reader, Writable, Writer};
use asn1rs::model::asn::Tag as ATag;
use asn1rs::prelude::UperWriter;
use proptest::prelude::*;
use rayon::prelude::*;
use serde_json::{json, Value as J};
use vcore::bitmodel::bits_of;
use vcore::gen::{self, ValueCfg};
use vcore::harness::*;
use vcore::refcodec;
use vcore::schema::*;

type Fail = (String, String);

#[derive(Clone, Debug, PartialEq, Eq, Hash)]
pub enum Expect {
    /// non-extensible constraint violated: write must return Err
    Reject,
    /// extensible constraint, value outside the root: write must succeed, extension form, round trip
    AcceptExtension,
}

#[derive(Clone, Debug)]
pub struct Mutation {
    pub path: String,
    pub kind: String,
    pub expect: Expect,
    pub value: Value,
}

fn illegal_chars(cs: Charset) -> Vec<char> {
    match cs {
        // (the last ones of each line: outside the alphabet, low octet or low seven bits inside it)
        Charset::Numeric => vec!['/', ':', 'a', '*', '_', '\u{7f}', '\u{80}', '\u{20ac}', '\u{0}', '\u{130}', '\u{b0}', '\u{120}'],
        Charset::Printable => vec!['*', '_', '@', '&', '!', '\u{7f}', '\u{80}', '\u{20ac}', '\u{0}', '[', '`', '{', '\u{141}', '\u{c1}', '\u{ff41}'],
        Charset::Visible => vec!['\u{1f}', '\u{7f}', '\u{80}', '\u{20ac}', '\u{0}', '\n', '\u{141}', '\u{c1}', '\u{ff21}'],
        Charset::Ia5 => vec!['\u{80}', '\u{20ac}', '\u{ff}', '\u{100}', '\u{141}', '\u{1F600}'],
        Charset::Utf8 => vec![],
    }
}

fn size_mutations(size: &Option<Size>, n: usize) -> Vec<(usize, String, Expect)> {
    let mut out = Vec::new();
    if let Some(s) = size {
        let lb = s.lb() as usize;
        let ub = s.ub().map(|u| u as usize);
        let expect = if s.ext { Expect::AcceptExtension } else { Expect::Reject };
        let mut cands: Vec<(usize, &str)> = Vec::new();
        if lb > 0 {
            cands.push((lb - 1, "size lb-1"));
            cands.push((0, "size 0"));
        }
        if let Some(ub) = ub {
            if ub < 3000 {
                cands.push((ub + 1, "size ub+1"));
                cands.push((2 * ub + 1, "size 2ub+1"));
            }
        }
        for (m, k) in cands {
            if m != n && !s.contains(m) {
                out.push((m, k.to_string(), expect.clone()));
            }
        }
    }
    out.dedup_by(|a, b| a.0 == b.0);
    out
}

fn resize<T: Clone>(v: &[T], n: usize, fill: T) -> Vec<T> {
    let mut out: Vec<T> = v.iter().cloned().take(n).collect();
    while out.len() < n {
        out.push(out.last().cloned().unwrap_or_else(|| fill.clone()));
    }
    out
}

/// all single-node mutations of `v` (a value of `ty`); `rebuild` puts a replacement for the node
/// back into the whole value
fn collect(m: &Module, ty: &Type, v: &Value, path: &str, rebuild: &dyn Fn(Value) -> Value, out: &mut Vec<Mutation>) {
    let mut push = |kind: String, expect: Expect, nv: Value| out.push(Mutation { path: path.to_string(), kind, expect, value: rebuild(nv) });
    match (ty, v) {
        (Type::Ref(n), v) => {
            let d = m.def(n).expect("reference");
            if d.ty.is_own_rust_type() {
                collect(m, &d.ty, v, path, rebuild, out);
            } else if let Value::Seq(s) = v {
                if let Some(Some(inner)) = s.first() {
                    collect(m, &d.ty, inner, path, &|nv| rebuild(Value::wrap(nv)), out);
                }
            }
        }
        (Type::Integer { range: Some(r), .. }, Value::Int(_)) => {
            let lb = r.lb.as_ref().map(|n| n.value);
            let ub = r.ub.as_ref().map(|n| n.value);
            let expect = if r.ext { Expect::AcceptExtension } else { Expect::Reject };
            let single = lb.is_some() && lb == ub;
            if let Some(l) = lb {
                push(format!("integer lb-1{}", if single { " (single value range)" } else { "" }), expect.clone(), Value::Int(l - 1));
                push("integer far below".into(), expect.clone(), Value::Int(l - 100_000));
            }
            if let Some(u) = ub {
                push(format!("integer ub+1{}", if single { " (single value range)" } else { "" }), expect.clone(), Value::Int(u + 1));
                push("integer far above".into(), expect.clone(), Value::Int(u + 100_000));
            }
        }
        (Type::BitString { size, .. }, Value::Bits(b)) => {
            for (n, kind, expect) in size_mutations(size, b.len()) {
                push(format!("BIT STRING {kind}"), expect, Value::Bits(resize(b, n, true)));
            }
        }
        (Type::OctetString { size }, Value::Bytes(b)) => {
            for (n, kind, expect) in size_mutations(size, b.len()) {
                push(format!("OCTET STRING {kind}"), expect, Value::Bytes(resize(b, n, 0x5a)));
            }
        }
        (Type::Str { cs, size }, Value::Str(st)) => {
            let chars: Vec<char> = st.chars().collect();
            let fill = if *cs == Charset::Numeric { '7' } else { 'x' };
            for (n, kind, expect) in size_mutations(size, chars.len()) {
                push(format!("{} {kind}", cs.keyword()), expect, Value::Str(resize(&chars, n, fill).into_iter().collect()));
            }
            if !chars.is_empty() {
                for (k, bad) in illegal_chars(*cs).into_iter().enumerate() {
                    let pos = match k % 3 {
                        0 => 0,
                        1 => chars.len() / 2,
                        _ => chars.len() - 1,
                    };
                    let mut c2 = chars.clone();
                    c2[pos] = bad;
                    push(format!("{} illegal character U+{:04X} at {}", cs.keyword(), bad as u32, ["first", "middle", "last"][k % 3]), Expect::Reject, Value::Str(c2.into_iter().collect()));
                }
            }
        }
        (Type::SequenceOf { elem, size }, Value::List(items)) | (Type::SetOf { elem, size }, Value::List(items)) => {
            for (n, kind, expect) in size_mutations(size, items.len()) {
                if n > items.len() && items.is_empty() {
                    continue; // no element to repeat
                }
                if n > 5000 {
                    continue;
                }
                push(format!("list {kind}"), expect, Value::List(resize(items, n, Value::Null)));
            }
            for (i, it) in items.iter().enumerate().take(3) {
                let items2 = items.clone();
                collect(m, elem, it, &format!("{path}[{i}]"), &|nv| {
                    let mut l = items2.clone();
                    l[i] = nv;
                    rebuild(Value::List(l))
                }, out);
            }
        }
        (Type::Sequence(f), Value::Seq(slots)) | (Type::Set(f), Value::Seq(slots)) if slots.len() == f.comps.len() => {
            for (i, (c, sl)) in f.comps.iter().zip(slots).enumerate() {
                if let Some(x) = sl {
                    let slots2 = slots.clone();
                    collect(m, &c.ty, x, &format!("{path}.{}", c.name), &|nv| {
                        let mut s = slots2.clone();
                        s[i] = Some(nv);
                        rebuild(Value::Seq(s))
                    }, out);
                }
            }
        }
        (Type::Choice { alts, .. }, Value::Choice(i, x)) if *i < alts.len() => {
            let i = *i;
            collect(m, &alts[i].ty, x, &format!("{path}.{}", alts[i].name), &|nv| rebuild(Value::Choice(i, Box::new(nv))), out);
        }
        // "for extensible constraints an out-of-root value is encoded in the extension form and
        // still round-trips": the items behind the marker, at the boundaries of the
        // normally-small encoding of their index (X.691 11.6: 63 / 64)
        (Type::Enumerated { items, root: Some(n_root) }, Value::Enum(_)) => {
            let n_ext = items.len() - n_root;
            for k in [0usize, 1, 62, 63, 64, 65, 127, 128, n_ext.saturating_sub(1)] {
                if k < n_ext {
                    push(format!("ENUMERATED extension item #{k}"), Expect::AcceptExtension, Value::Enum(n_root + k));
                }
            }
        }
        _ => {}
    }
}

pub fn mutations(m: &Module, def: &Def, v: &Value) -> Vec<Mutation> {
    let mut out = Vec::new();
    if def.ty.is_own_rust_type() {
        collect(m, &def.ty, v, "", &|nv| nv, &mut out);
    } else if let Value::Seq(s) = v {
        if let Some(Some(inner)) = s.first() {
            collect(m, &def.ty, inner, "", &Value::wrap, &mut out);
        }
    }
    out
}

pub fn check_mutation(zoo: &Zoo, ei: usize, mu: &Mutation) -> Result<&'static str, Fail> {
    let e = &zoo.entries[ei];
    let id = e.id();
    let built = match e.build(&mu.value) {
        Ok(b) => b,
        Err(_) => return Ok("unrepresentable"),
    };
    let what = format!("{id} at {} ({})", if mu.path.is_empty() { "<top>" } else { &mu.path }, mu.kind);
    let class: String = mu.kind.split_whitespace().filter(|w| !w.starts_with("U+")).collect::<Vec<_>>().join("-");
    match (encode(e, &*built), &mu.expect) {
        (Enc::Panic(p), _) => Err((format!("encode-panic:{}", panic_class(&p)), format!("{what}: the encoder panicked instead of returning an error: {p}"))),
        (Enc::Err(_), Expect::Reject) => Ok("rejected"),
        (Enc::Ok { bytes, bit_len }, Expect::Reject) => {
            // the worse case the property names: bits that decode to a different value
            let dec = match decode(e, &bytes, bit_len) {
                Dec::Ok(val, _) => {
                    if e.entry.ty.same(&*built, &*val) {
                        "decodes to the same (illegal) value".to_string()
                    } else {
                        format!("decodes to a DIFFERENT value: {}", e.entry.ty.debug(&*val).chars().take(200).collect::<String>())
                    }
                }
                Dec::Err(k) => format!("does not decode ({k})"),
                Dec::Panic(_) => "decoder panics".to_string(),
            };
            Err((format!("accepted:{class}"), format!("{what}: the encoder accepted a value outside a non-extensible constraint; the produced encoding {dec}")))
        }
        // turning a DEFAULT extension addition into a non-default value makes it "present": the
        // documented refusal (first addition absent, later one present) may then apply (C03)
        (Enc::Err("ExtensionFieldsInconsistent"), Expect::AcceptExtension) => Ok("documented-refusal"),
        (Enc::Err(k), Expect::AcceptExtension) => Err((format!("extension-refused:{class}:{k}"), format!("{what}: out-of-root value of an extensible constraint refused with {k}"))),
        (Enc::Ok { bytes, bit_len }, Expect::AcceptExtension) => {
            match decode(e, &bytes, bit_len) {
                Dec::Ok(val, pos) => {
                    if !e.entry.ty.same(&*built, &*val) {
                        return Err((format!("extension-roundtrip:{class}"), format!("{what}: out-of-root value does not round trip: read {}", e.entry.ty.debug(&*val).chars().take(200).collect::<String>())));
                    }
                    if pos != bit_len {
                        return Err((format!("extension-roundtrip:{class}"), format!("{what}: {bit_len} bits produced, {pos} consumed")));
                    }
                }
                Dec::Err(k) => return Err((format!("extension-roundtrip:{class}"), format!("{what}: out-of-root value does not decode ({k})"))),
                Dec::Panic(p) => return Err((format!("extension-roundtrip:{class}"), format!("{what}: decoder panicked: {p}"))),
            }
            if e.conformance {
                // "encoded in the extension form": inside the profile the bits must be X.691's
                if let Ok(s) = refcodec::encode_def(&e.module, &e.def, &mu.value) {
                    let got: Vec<bool> = bits_of(&bytes).into_iter().take(bit_len).collect();
                    if got != s.bits {
                        return Err((format!("extension-form:{class}"), format!("{what}: out-of-root value is not encoded in X.691's extension form")));
                    }
                }
            }
            Ok("extension-accepted")
        }
    }
}

// ---------------------------------------------------------------------------------------------
// forged CHOICE / ENUMERATED indices (not constructible through safe generated types)

#[derive(Debug, PartialEq)]
struct ForgedEnum<const N: u64, const EXT: bool>(u64);
impl<const N: u64, const EXT: bool> dcommon::Constraint for ForgedEnum<N, EXT> {
    const TAG: ATag = ATag::DEFAULT_ENUMERATED;
}
impl<const N: u64, const EXT: bool> enumerated::Constraint for ForgedEnum<N, EXT> {
    const NAME: &'static str = "ForgedEnum";
    const VARIANT_COUNT: u64 = N;
    const STD_VARIANT_COUNT: u64 = N;
    const EXTENSIBLE: bool = EXT;
    fn to_choice_index(&self) -> u64 {
        self.0
    }
    fn from_choice_index(index: u64) -> Option<Self> {
        Some(Self(index))
    }
}
impl<const N: u64, const EXT: bool> Writable for ForgedEnum<N, EXT> {
    fn write<W: Writer>(&self, w: &mut W) -> Result<(), W::Error> {
        w.write_enumerated(self)
    }
}

#[derive(Debug, PartialEq)]
struct ForgedChoice<const N: u64>(u64);
impl<const N: u64> dcommon::Constraint for ForgedChoice<N> {
    const TAG: ATag = ATag::ContextSpecific(0);
}
impl<const N: u64> choice::Constraint for ForgedChoice<N> {
    const NAME: &'static str = "ForgedChoice";
    const VARIANT_COUNT: u64 = N;
    const STD_VARIANT_COUNT: u64 = N;
    const EXTENSIBLE: bool = false;
    fn to_choice_index(&self) -> u64 {
        self.0
    }
    fn write_content<W: Writer>(&self, w: &mut W) -> Result<(), W::Error> {
        w.write_boolean::<asn1rs::descriptor::boolean::NoConstraint>(true)
    }
    fn read_content<R: Reader>(index: u64, r: &mut R) -> Result<Option<Self>, R::Error> {
        r.read_boolean::<asn1rs::descriptor::boolean::NoConstraint>()?;
        Ok(Some(Self(index)))
    }
}
impl<const N: u64> Writable for ForgedChoice<N> {
    fn write<W: Writer>(&self, w: &mut W) -> Result<(), W::Error> {
        w.write_choice(self)
    }
}

fn forged(report: &Report, local: &mut Local) {
    fn one<T: Writable>(report: &Report, local: &mut Local, what: &str, n: u64, idx: u64, v: T) {
        local.eval();
        local.nontrivial(hash_of(&(what, n, idx)));
        local.class("forged-index");
        let mut w = UperWriter::default();
        let res = catch(|| w.write(&v));
        let detail = json!({"forged": what, "root_items": n, "index": idx.to_string()});
        match res {
            Err(p) => {
                report.fail(&format!("forged-index-panic:{what}"), &format!("{what} with {n} root items, index {idx}: the encoder panicked: {p}"), detail);
            }
            Ok(Ok(())) => {
                report.fail(&format!("forged-index-accepted:{what}"), &format!("{what} with {n} root items (not extensible): index {idx} accepted, {} bits written", w.bit_len()), detail);
            }
            Ok(Err(_)) => {}
        }
    }
    macro_rules! for_n {
        ($($n:literal),*) => {$(
            for idx in [$n, $n + 1, 2 * $n, 255, 256, 65536, u64::MAX / 2, u64::MAX] {
                if idx >= $n {
                    one(report, local, "ENUMERATED", $n, idx, ForgedEnum::<$n, false>(idx));
                    one(report, local, "CHOICE", $n, idx, ForgedChoice::<$n>(idx));
                }
            }
        )*};
    }
    for_n!(1, 2, 3, 4, 5, 7, 8, 9, 64, 127, 128, 255, 256, 257, 300);
}

fn mutation_json(zoo: &Zoo, ei: usize, valid: &Value, mu: &Mutation) -> J {
    let e = &zoo.entries[ei];
    json!({"module_text": e.text(), "module": e.module.name, "type": e.def.name, "asn1": vcore::print::type_text(&e.def.ty), "valid_value": valid.brief(),
           "path": mu.path, "kind": mu.kind, "expect": format!("{:?}", mu.expect), "value_brief": mu.value.brief(), "value": serde_json::to_value(&mu.value).unwrap()})
}

const RULE: &str = "programs: every definition of the compiled zoo; for a generated valid value (proptest) every reached constrained node is pushed outside its constraint, one node per case: INTEGER lb-1 / ub+1 / far outside (incl. single-value ranges), SIZE lb-1 / 0 / ub+1 / 2ub+1 of BIT STRING, OCTET STRING, character strings and lists, one illegal character at first/middle/last position for Numeric/Printable/Visible/IA5String, ENUMERATED items behind the marker at the index boundaries 0/1/62..65/127/128/last; plus forged CHOICE/ENUMERATED indices through hand-written descriptor types. Oracle: non-extensible -> write returns Err (Ok or panic is a violation; for Ok the report says what the bits decode to); extensible -> Ok, round trip, and inside the profile bits == X.691 extension form. Non-trivial: the mutated node is reached by the encoder (it is inside a present component); distinct = (type, path, mutation kind, value).";

pub fn run(ctx: Ctx) -> i32 {
    let report = Report::new(ctx.clone(), RULE);
    report.assumption("values not representable in the generated Rust field type cannot be constructed and are counted as 'unrepresentable'");
    report.assumption("nothing is asserted about a writer after it returned Err");
    let zoo = load_zoo();
    let replay = |c: &J| -> Result<(), Fail> {
        let ei = crate::uper::find_entry(&zoo, c["module"].as_str().unwrap_or(""), c["type"].as_str().unwrap_or("")).ok_or_else(|| ("harness:replay".to_string(), "type not in the compiled zoo".to_string()))?;
        let value: Value = serde_json::from_value(c["value"].clone()).map_err(|e| ("harness:replay".to_string(), e.to_string()))?;
        let expect = if c["expect"].as_str() == Some("AcceptExtension") { Expect::AcceptExtension } else { Expect::Reject };
        let mu = Mutation { path: c["path"].as_str().unwrap_or("").to_string(), kind: c["kind"].as_str().unwrap_or("").to_string(), expect, value };
        check_mutation(&zoo, ei, &mu).map(|_| ())
    };
    if let Some(path) = &ctx.replay {
        let j = read_replay(path);
        report.eval(1);
        match replay(&j["case"]) {
            Ok(()) => println!("replay: case passes"),
            Err((key, msg)) => {
                report.fail(&key, &msg, j["case"].clone());
            }
        }
        return report.finish();
    }
    report.run_probes(&replay);
    let tier = ctx.tier;
    let n_entries = zoo.entries.len();
    let per_entry = tier.pick(24u32, 120u32);
    let bad = run_in_workers(&report, 16, std::time::Duration::from_secs(tier.pick(900, 10800)), &|report: &Report| {
        let cfg = ValueCfg { big_weight: 0, max_big: 300, max_big_elems: 300, conformance: true, out_of_root: false, cap_open_types: true, hard_limit: None, foreign_chars: false };
        if report.ctx.my_shards(1).contains(&0) {
            let mut local = Local::default();
            forged(report, &mut local);
            report.merge_local(&mut local);
        }
        report.ctx.my_shards(n_entries as u64).par_iter().for_each(|&k| {
            if report.too_many_violations() {
                return;
            }
            let ei = k as usize;
            let e = &zoo.entries[ei];
            let strat = gen::def_value_strategy(&e.module, &e.def, cfg);
            let mut runner = report.ctx.runner("c06", ei as u64, per_entry);
            let mut local = Local::default();
            let failed = std::cell::Cell::new(false);
            let cell = std::cell::RefCell::new(&mut local);
            let found: std::cell::RefCell<Option<Mutation>> = std::cell::RefCell::new(None);
            let result = runner.run(&strat, |v| {
                if gen::approx_octets(&v) > 6000 {
                    return Ok(());
                }
                for mu in mutations(&e.module, &e.def, &v) {
                    let res = check_mutation(&zoo, ei, &mu);
                    if !failed.get() {
                        let mut l = cell.borrow_mut();
                        l.eval();
                        match &res {
                            Ok(what) => {
                                l.class(what);
                                if *what != "unrepresentable" {
                                    l.nontrivial(hash_of(&(ei, &mu.path, &mu.kind, &mu.value)));
                                    l.class(&format!("mutation:{}", mu.kind.split(" U+").next().unwrap_or("")));
                                    if l.samples.len() < 2 {
                                        l.sample(json!({"type": e.id(), "asn1": vcore::print::type_text(&e.def.ty), "path": mu.path, "mutation": mu.kind, "value": mu.value.brief(), "outcome": what}));
                                    }
                                }
                            }
                            Err(_) => {}
                        }
                    }
                    if let Err((key, msg)) = res {
                        failed.set(true);
                        *found.borrow_mut() = Some(mu.clone());
                        return Err(TestCaseError::fail(format!("{key}\u{1}{msg}")));
                    }
                }
                Ok(())
            });
            if let Err(proptest::test_runner::TestError::Fail(reason, v)) = result {
                let r = reason.message().to_string();
                let (key, msg) = r.split_once('\u{1}').unwrap_or(("unknown", &r));
                // the mutation that failed on the shrunk valid value
                let mu = mutations(&e.module, &e.def, &v).into_iter().find(|mu| check_mutation(&zoo, ei, mu).is_err()).or_else(|| found.borrow().clone());
                if let Some(mu) = mu {
                    report.fail(key, msg, mutation_json(&zoo, ei, &v, &mu));
                }
            }
            report.merge_local(&mut local);
        });
    });
    dead_workers_are_infra(&report, &bad);
    report.extra("zoo_types", json!(n_entries));
    for must in ["rejected", "extension-accepted", "forged-index"] {
        if report.class_count(must) == 0 && report.violation_count() == 0 {
            report.infra(&format!("generator fault: outcome class {must} never observed"));
        }
    }
    report.finish()
}
