//! C04 — decoders never panic, hang, over-read or over-allocate on arbitrary input.
//!
//! Targets: UperReader::read::<T> and ProtobufReader::read::<T> for every zoo type, the DER reader
//! for the primitives it implements. Inputs: random bytes with a random declared bit length, and
//! fault sequences (1..3 corruptions) applied to valid encodings of generated values.

use crate::common::*;
use asn1rs::descriptor::{Boolean, Integer, ReadableType};
use asn1rs::prelude::basic::{BasicRead, DER};
use asn1rs::prelude::UperReader;
use asn1rs::rw::ScopedBitRead;
use proptest::prelude::*;
use proptest::strategy::BoxedStrategy;
use serde_json::{json, Value as J};
use std::alloc::{GlobalAlloc, Layout, System};
use std::io::Write as _;
use std::sync::atomic::{AtomicUsize, Ordering};
use std::sync::Mutex;
use vcore::gen::{self, ValueCfg};
use vcore::harness::*;
use vcore::schema::*;

type Fail = (String, String);

// ---------------------------------------------------------------------------------------------
// counting allocator (installed for the whole vrt binary)

pub struct Counting;
static LIVE: AtomicUsize = AtomicUsize::new(0);
static PEAK: AtomicUsize = AtomicUsize::new(0);
static LARGEST: AtomicUsize = AtomicUsize::new(0);
/// requests above this are refused (the process then aborts through handle_alloc_error; the
/// current case has been dumped to the crash file before)
const REFUSE_ABOVE: usize = 8 << 30;

unsafe impl GlobalAlloc for Counting {
    unsafe fn alloc(&self, l: Layout) -> *mut u8 {
        let size = l.size();
        if size > REFUSE_ABOVE {
            dump_current("oversize-alloc");
            return std::ptr::null_mut();
        }
        let p = System.alloc(l);
        if !p.is_null() {
            let live = LIVE.fetch_add(size, Ordering::Relaxed) + size;
            PEAK.fetch_max(live, Ordering::Relaxed);
            LARGEST.fetch_max(size, Ordering::Relaxed);
        }
        p
    }
    unsafe fn dealloc(&self, p: *mut u8, l: Layout) {
        LIVE.fetch_sub(l.size(), Ordering::Relaxed);
        System.dealloc(p, l)
    }
    unsafe fn alloc_zeroed(&self, l: Layout) -> *mut u8 {
        let size = l.size();
        if size > REFUSE_ABOVE {
            dump_current("oversize-alloc");
            return std::ptr::null_mut();
        }
        let p = System.alloc_zeroed(l);
        if !p.is_null() {
            let live = LIVE.fetch_add(size, Ordering::Relaxed) + size;
            PEAK.fetch_max(live, Ordering::Relaxed);
            LARGEST.fetch_max(size, Ordering::Relaxed);
        }
        p
    }
    unsafe fn realloc(&self, p: *mut u8, l: Layout, new_size: usize) -> *mut u8 {
        if new_size > REFUSE_ABOVE {
            dump_current("oversize-alloc");
            return std::ptr::null_mut();
        }
        let q = System.realloc(p, l, new_size);
        if !q.is_null() {
            if new_size >= l.size() {
                let live = LIVE.fetch_add(new_size - l.size(), Ordering::Relaxed) + (new_size - l.size());
                PEAK.fetch_max(live, Ordering::Relaxed);
            } else {
                LIVE.fetch_sub(l.size() - new_size, Ordering::Relaxed);
            }
            LARGEST.fetch_max(new_size, Ordering::Relaxed);
        }
        q
    }
}

// the case being executed, for the crash file (no allocation on the dump path)
static CURRENT: Mutex<([u8; 4 << 20], usize)> = Mutex::new(([0u8; 4 << 20], 0));
static CRASH_FILE: Mutex<Option<std::fs::File>> = Mutex::new(None);
static CASE_STARTED_MS: AtomicUsize = AtomicUsize::new(0);
static CASE_BYTES: AtomicUsize = AtomicUsize::new(0);

fn set_current(s: &str) {
    if let Ok(mut c) = CURRENT.lock() {
        let n = s.len().min(c.0.len());
        c.0[..n].copy_from_slice(&s.as_bytes()[..n]);
        c.1 = n;
    }
}

fn dump_current(why: &str) {
    if let (Ok(c), Ok(mut f)) = (CURRENT.try_lock(), CRASH_FILE.try_lock()) {
        if let Some(f) = f.as_mut() {
            let _ = f.write_all(b"{\"why\":\"");
            let _ = f.write_all(why.as_bytes());
            let _ = f.write_all(b"\",\"case\":");
            let _ = f.write_all(&c.0[..c.1]);
            let _ = f.write_all(b"}\n");
            let _ = f.flush();
        }
    }
}

fn now_ms() -> usize {
    static START: std::sync::OnceLock<std::time::Instant> = std::sync::OnceLock::new();
    START.get_or_init(std::time::Instant::now).elapsed().as_millis() as usize + 1
}

/// limits of one case: CPU time of this (sequential) worker process, and - for a decode that blocks
/// without burning CPU - wall-clock time. CPU time, because the wall clock of a case stretches
/// arbitrarily when the machine is oversubscribed.
const CASE_LIMIT_CPU_MS: usize = 20_000;
const CASE_LIMIT_WALL_MS: usize = 300_000;

fn start_watchdog() {
    std::thread::spawn(|| {
        let mut watch = CaseWatch::new();
        // (VERIF_CASE_CPU_MS: self-test knob for finding slow cases)
        let cpu_limit = std::env::var("VERIF_CASE_CPU_MS").ok().and_then(|v| v.parse().ok()).unwrap_or(CASE_LIMIT_CPU_MS);
        loop {
            std::thread::sleep(std::time::Duration::from_millis(250));
            // "without bound relative to the input size": the limits grow with the input (the debug-built
            // protobuf reader needs ~10 us per octet: 1 MiB encodings of the seeded zoo's big lists take 10 s)
            let bytes = CASE_BYTES.load(Ordering::Relaxed);
            if watch.over(CASE_STARTED_MS.load(Ordering::Relaxed), now_ms(), cpu_limit + bytes / 10, CASE_LIMIT_WALL_MS + bytes) {
                dump_current("timeout");
                std::process::exit(3);
            }
        }
    });
}

// ---------------------------------------------------------------------------------------------
// cases

#[derive(Clone, Debug, PartialEq, Eq, Hash)]
pub enum Target {
    Uper,
    Proto,
    /// DER primitive reader number k
    Der(u8),
}

#[derive(Clone, Debug, PartialEq, Eq, Hash)]
pub struct Case {
    pub target: Target,
    /// zoo entry (ignored for DER)
    pub module: String,
    pub ty: String,
    pub bytes: Vec<u8>,
    pub bit_len: usize,
    pub origin: String,
}

impl Case {
    fn to_json(&self) -> J {
        json!({"target": match &self.target { Target::Uper => "uper".to_string(), Target::Proto => "proto".to_string(), Target::Der(k) => format!("der{k}") },
               "module": self.module, "type": self.ty, "bytes": hex(&self.bytes), "bit_len": self.bit_len, "origin": self.origin})
    }
    fn from_json(j: &J) -> Case {
        let t = j["target"].as_str().unwrap_or("uper");
        let target = if t == "uper" {
            Target::Uper
        } else if t == "proto" {
            Target::Proto
        } else {
            Target::Der(t[3..].parse().unwrap_or(0))
        };
        Case { target, module: j["module"].as_str().unwrap_or("").into(), ty: j["type"].as_str().unwrap_or("").into(), bytes: unhex(j["bytes"].as_str().unwrap_or("")), bit_len: j["bit_len"].as_u64().unwrap_or(0) as usize, origin: j["origin"].as_str().unwrap_or("").into() }
    }
}

fn alloc_budget(input_len: usize) -> usize {
    (64 << 20) + (64 << 10) * input_len
}

pub struct Outcome {
    pub ok: bool,
    pub consumed: usize,
    pub err_kind: &'static str,
}

fn measure<T>(f: impl FnOnce() -> T) -> (T, usize, usize) {
    let live0 = LIVE.load(Ordering::Relaxed);
    PEAK.store(live0, Ordering::Relaxed);
    LARGEST.store(0, Ordering::Relaxed);
    let r = f();
    let peak = PEAK.load(Ordering::Relaxed).saturating_sub(live0);
    (r, peak, LARGEST.load(Ordering::Relaxed))
}

/// bits beyond the declared length flipped / appended bytes changed
fn beyond_flipped(bytes: &[u8], bit_len: usize) -> Vec<u8> {
    let mut b = bytes.to_vec();
    for i in bit_len..b.len() * 8 {
        b[i / 8] ^= 0x80 >> (i % 8);
    }
    b
}

pub fn check_case(zoo: &Zoo, c: &Case) -> Result<Outcome, Fail> {
    set_current(&c.to_json().to_string());
    CASE_BYTES.store(c.bytes.len(), Ordering::Relaxed);
    CASE_STARTED_MS.store(now_ms(), Ordering::Relaxed);
    let r = check_case_inner(zoo, c);
    CASE_STARTED_MS.store(0, Ordering::Relaxed);
    r
}

fn check_case_inner(zoo: &Zoo, c: &Case) -> Result<Outcome, Fail> {
    match &c.target {
        Target::Uper => {
            let ei = crate::uper::find_entry(zoo, &c.module, &c.ty).ok_or_else(|| ("harness:replay".to_string(), "type not in the compiled zoo".to_string()))?;
            let e = &zoo.entries[ei];
            let id = e.id();
            let run = |bytes: &[u8]| {
                measure(|| {
                    let mut r = UperReader::from((bytes, c.bit_len));
                    let res = catch(|| e.entry.ty.uper_read(&mut r));
                    // "Reader accessors such as the remaining-bit count stay callable after a failed read"
                    let rem = catch(|| r.bits_remaining());
                    let pos = r.into_bits().pos();
                    (res, rem, pos)
                })
            };
            let ((res, rem, pos), peak, largest) = run(&c.bytes);
            if peak > alloc_budget(c.bytes.len()) {
                return Err(("uper:allocation".into(), format!("{id}: decoding {} input bytes allocated {peak} bytes at peak (largest request {largest})", c.bytes.len())));
            }
            let res = res.map_err(|p| (format!("uper:panic:{}", panic_class(&p)), format!("{id}: the UPER reader panicked: {p}")))?;
            if let Err(p) = rem {
                return Err(("uper:bits_remaining-panic".into(), format!("{id}: bits_remaining() panicked after the read ({}): {p}", if res.is_ok() { "Ok" } else { "Err" })));
            }
            // metamorphic over-read detector
            let other = beyond_flipped(&c.bytes, c.bit_len);
            let mut grown = other.clone();
            grown.extend_from_slice(&[0xFF, 0x00, 0xFF, 0xA5]);
            let ((res2, _, pos2), _, _) = run(&grown);
            let res2 = res2.map_err(|p| (format!("uper:panic:{}", panic_class(&p)), format!("{id}: the UPER reader panicked (bits beyond the declared length changed): {p}")))?;
            match (&res, &res2) {
                (Ok(a), Ok(b)) => {
                    if pos > c.bit_len {
                        return Err(("uper:over-read".into(), format!("{id}: Ok after consuming {pos} bits of a {}-bit input", c.bit_len)));
                    }
                    if !e.entry.ty.same(&**a, &**b) || pos != pos2 {
                        return Err(("uper:over-read".into(), format!("{id}: the result depends on bits beyond the declared length of {} bits (positions {pos} / {pos2})", c.bit_len)));
                    }
                }
                (Ok(_), Err(_)) | (Err(_), Ok(_)) => {
                    return Err(("uper:over-read".into(), format!("{id}: success depends on bits beyond the declared length of {} bits", c.bit_len)));
                }
                (Err(_), Err(_)) => {}
            }
            Ok(match res {
                Ok(_) => Outcome { ok: true, consumed: pos, err_kind: "" },
                Err(e) => Outcome { ok: false, consumed: pos, err_kind: kind_name(e.kind()) },
            })
        }
        Target::Proto => {
            let ei = crate::uper::find_entry(zoo, &c.module, &c.ty).ok_or_else(|| ("harness:replay".to_string(), "type not in the compiled zoo".to_string()))?;
            let e = &zoo.entries[ei];
            let id = e.id();
            let (res, peak, largest) = measure(|| catch(|| e.entry.ty.proto_read(&c.bytes)));
            if peak > alloc_budget(c.bytes.len()) {
                return Err(("proto:allocation".into(), format!("{id}: decoding {} input bytes allocated {peak} bytes at peak (largest request {largest})", c.bytes.len())));
            }
            let res = res.map_err(|p| (format!("proto:panic:{}", panic_class(&p)), format!("{id}: the protobuf reader panicked: {p}")))?;
            Ok(Outcome { ok: res.is_ok(), consumed: c.bytes.len() * 8, err_kind: if res.is_ok() { "" } else { "proto-error" } })
        }
        Target::Der(k) => {
            let bytes = &c.bytes;
            let (res, peak, _) = measure(|| {
                catch(|| -> (bool, usize) {
                    let mut s: &[u8] = &bytes[..];
                    let ok = match k {
                        0 => s.read_identifier().is_ok(),
                        1 => s.read_length().is_ok(),
                        2 => s.read_boolean().is_ok(),
                        3 => {
                            let n = bytes.first().copied().unwrap_or(0) as u32;
                            let mut s2: &[u8] = if bytes.is_empty() { &bytes[..] } else { &bytes[1..] };
                            let ok = s2.read_integer_i64(n).is_ok();
                            s = s2;
                            ok
                        }
                        4 => {
                            let n = bytes.first().copied().unwrap_or(0) as u32;
                            let mut s2: &[u8] = if bytes.is_empty() { &bytes[..] } else { &bytes[1..] };
                            let ok = s2.read_integer_u64(n).is_ok();
                            s = s2;
                            ok
                        }
                        5 => {
                            let mut r = DER::reader(&mut s);
                            <Integer<i64>>::read_value(&mut r).is_ok()
                        }
                        6 => {
                            let mut r = DER::reader(&mut s);
                            <Integer<u8>>::read_value(&mut r).is_ok()
                        }
                        7 => {
                            let mut r = DER::reader(&mut s);
                            <Boolean>::read_value(&mut r).is_ok()
                        }
                        _ => {
                            let mut r = DER::reader(&mut s);
                            <Integer<u64>>::read_value(&mut r).is_ok()
                        }
                    };
                    (ok, bytes.len() - s.len())
                })
            });
            if peak > alloc_budget(bytes.len()) {
                return Err(("der:allocation".into(), format!("DER reader {k}: allocated {peak} bytes")));
            }
            let (ok, used) = res.map_err(|p| (format!("der:panic:{}", panic_class(&p)), format!("DER reader {k} panicked on {}: {p}", hex(bytes))))?;
            Ok(Outcome { ok, consumed: used * 8, err_kind: if ok { "" } else { "der-error" } })
        }
    }
}

// ---------------------------------------------------------------------------------------------
// generators

#[derive(Clone, Debug)]
pub enum Fault {
    TruncateBits(u16),
    FlipBit(u16),
    InsertByte(u16, u8),
    DeleteByte(u16),
    Overwrite(u16, u8),
    DuplicateChunk(u16, u8),
}

pub fn fault_strategy_pub() -> impl Strategy<Value = Fault> {
    fault_strategy()
}

pub fn random_bytes_strategy_pub() -> BoxedStrategy<(Vec<u8>, usize)> {
    random_bytes_strategy()
}

fn fault_strategy() -> impl Strategy<Value = Fault> {
    let boundary = proptest::sample::select(vec![0x00u8, 0x01, 0x3f, 0x40, 0x7f, 0x80, 0x81, 0xbf, 0xc0, 0xc1, 0xc4, 0xc5, 0xfe, 0xff]);
    prop_oneof![
        2 => any::<u16>().prop_map(Fault::TruncateBits),
        3 => any::<u16>().prop_map(Fault::FlipBit),
        2 => (any::<u16>(), any::<u8>()).prop_map(|(p, b)| Fault::InsertByte(p, b)),
        2 => any::<u16>().prop_map(Fault::DeleteByte),
        3 => (any::<u16>(), boundary).prop_map(|(p, b)| Fault::Overwrite(p, b)),
        1 => (any::<u16>(), 1..9u8).prop_map(|(p, n)| Fault::DuplicateChunk(p, n)),
    ]
}

fn scale(x: u16, max: usize) -> usize {
    ((x as usize) * (max + 1)) >> 16
}

pub fn apply_faults(bytes: &[u8], bit_len: usize, faults: &[Fault]) -> (Vec<u8>, usize) {
    let mut b = bytes.to_vec();
    let mut n = bit_len;
    for f in faults {
        match f {
            Fault::TruncateBits(p) => {
                n = scale(*p, n);
                b.truncate((n + 7) / 8);
            }
            Fault::FlipBit(p) => {
                if n > 0 {
                    let i = scale(*p, n - 1);
                    b[i / 8] ^= 0x80 >> (i % 8);
                }
            }
            Fault::InsertByte(p, v) => {
                let i = scale(*p, b.len());
                b.insert(i, *v);
                n += 8;
            }
            Fault::DeleteByte(p) => {
                if !b.is_empty() {
                    let i = scale(*p, b.len() - 1);
                    b.remove(i);
                    n = n.saturating_sub(8).min(b.len() * 8);
                }
            }
            Fault::Overwrite(p, v) => {
                if !b.is_empty() {
                    let i = scale(*p, b.len() - 1);
                    b[i] = *v;
                }
            }
            Fault::DuplicateChunk(p, len) => {
                if !b.is_empty() {
                    let i = scale(*p, b.len() - 1);
                    let j = (i + *len as usize).min(b.len());
                    let chunk = b[i..j].to_vec();
                    for (k, x) in chunk.iter().enumerate() {
                        b.insert(j + k, *x);
                    }
                    n += chunk.len() * 8;
                }
            }
        }
    }
    let n = n.min(bytes_bits(&b));
    (b, n)
}

fn bytes_bits(b: &[u8]) -> usize {
    b.len() * 8
}

/// TLV-shaped hostile input for the DER readers: a plausible identifier octet, a length in every
/// form (short, 0x81..0x88 with small / huge / maximal values, indefinite, reserved 0xFF) and a few
/// content octets - far fewer than announced
fn der_bytes_strategy() -> BoxedStrategy<Vec<u8>> {
    let tag = prop_oneof![4 => proptest::sample::select(vec![0x02u8, 0x0A, 0x01, 0x05, 0x30, 0x31, 0x04, 0x03, 0x0C]), 1 => any::<u8>(), 1 => Just(0x1F), 1 => Just(0xBF)];
    let length = prop_oneof![
        2 => (0..0x80u8).prop_map(|n| vec![n]),
        1 => any::<u8>().prop_map(|n| vec![0x81, n]),
        1 => any::<u16>().prop_map(|n| vec![0x82, (n >> 8) as u8, n as u8]),
        3 => (proptest::sample::select(vec![0x00u32, 0x01, 0x04, 0x07, 0x7F, 0x80, 0xFF]), any::<u32>()).prop_map(|(hi, rest)| vec![0x84, hi as u8, (rest >> 16) as u8, (rest >> 8) as u8, rest as u8]),
        1 => any::<u32>().prop_map(|n| vec![0x83, (n >> 16) as u8, (n >> 8) as u8, n as u8]),
        2 => (1..9u8, any::<u64>()).prop_map(|(k, v)| {
            let mut out = vec![0x80 | k];
            out.extend_from_slice(&v.to_be_bytes()[8 - k as usize..]);
            out
        }),
        1 => Just(vec![0x88, 0xFF, 0xFF, 0xFF, 0xFF, 0xFF, 0xFF, 0xFF, 0xFF]),
        1 => Just(vec![0x80]),
        1 => Just(vec![0xFF]),
        1 => Just(vec![0x89, 1, 0, 0, 0, 0, 0, 0, 0, 0]),
    ];
    (tag, length, proptest::collection::vec(any::<u8>(), 0..12), any::<bool>())
        .prop_map(|(t, l, content, skip_tag)| {
            // (the raw primitives number 1..4 start at the length / content)
            let mut out = if skip_tag { vec![] } else { vec![t] };
            out.extend(l);
            out.extend(content);
            out
        })
        .boxed()
}

fn random_bytes_strategy() -> BoxedStrategy<(Vec<u8>, usize)> {
    let bytes = prop_oneof![
        6 => proptest::collection::vec(any::<u8>(), 0..13),
        2 => proptest::collection::vec(any::<u8>(), 13..65),
        1 => (0..65usize).prop_map(|n| vec![0x00; n]),
        1 => (0..65usize).prop_map(|n| vec![0xFF; n]),
        1 => (0..30usize, proptest::sample::select(vec![0x7fu8, 0x80, 0xbf, 0xc0, 0xc1, 0xc4])).prop_map(|(n, v)| vec![v; n]),
        // hostile numbers at every bit offset: 0..23 random bits, then a number in one of the
        // self-delimiting forms with an extreme value - "1" + length octet k + k octets of FF (the
        // long form of normally-small numbers / lengths, k = 8 gives 2^64-1), a bare length octet
        // k + k x FF (semi-constrained / unconstrained numbers), k x FF + 7F, fragment headers
        2 => (proptest::collection::vec(any::<bool>(), 0..24), 0..5u8, 1..10usize, proptest::collection::vec(any::<u8>(), 0..6)).prop_map(|(prefix, form, k, tail)| {
            let mut bits = prefix;
            let push_byte = |bits: &mut Vec<bool>, b: u8| (0..8).for_each(|i| bits.push(b & (0x80 >> i) != 0));
            match form {
                0 => {
                    bits.push(true);
                    push_byte(&mut bits, k as u8);
                    (0..k).for_each(|_| push_byte(&mut bits, 0xFF));
                }
                1 => {
                    push_byte(&mut bits, k as u8);
                    (0..k).for_each(|_| push_byte(&mut bits, 0xFF));
                }
                2 => {
                    push_byte(&mut bits, k as u8);
                    push_byte(&mut bits, 0x80);
                    (1..k).for_each(|_| push_byte(&mut bits, 0x00));
                }
                3 => {
                    (0..k).for_each(|_| push_byte(&mut bits, 0xFF));
                    push_byte(&mut bits, 0x7F);
                }
                _ => {
                    push_byte(&mut bits, 0xC0 | (k as u8 % 5));
                    push_byte(&mut bits, 0xBF);
                    push_byte(&mut bits, 0xFF);
                }
            }
            tail.iter().for_each(|b| push_byte(&mut bits, *b));
            vcore::bitmodel::bytes_of(&bits)
        }),
    ];
    (bytes, any::<u16>(), 0..3u8)
        .prop_map(|(b, t, mode)| {
            let full = b.len() * 8;
            let bit_len = if mode == 0 { scale(t, full) } else { full };
            (b, bit_len)
        })
        .boxed()
}

const RULE: &str = "targets: UperReader::read::<T> and ProtobufReader::read::<T> for every type of the compiled zoo, and the DER reader primitives (identifier, length, boolean, integer_i64/u64, Integer<T>/Boolean through BasicReader). Inputs (proptest): (a) random byte strings (0..64 bytes, random / 00 / FF / boundary fills, and hostile self-delimiting numbers - long-form normally-small numbers, length-prefixed integers with k x FF, fragment headers - behind 0..23 random bits) with a random declared bit length; (a') for the DER readers also TLV-shaped input: identifier octet, a length in every form (short, 0x81..0x89 with small / huge / maximal values, indefinite, 0xFF) and fewer content octets than announced; (b) valid encodings of generated values with 1..3 faults from {truncate to a bit, flip a bit, insert / delete / overwrite a byte with a boundary value, duplicate a chunk}. Oracle per case: no panic; on Ok position <= declared length and identical result when every bit beyond the declared length is flipped and bytes are appended (over-read detector); bits_remaining() callable afterwards; peak allocation <= 64 MiB + 64 KiB x input bytes (counting global allocator); a case using > 20 s + 0.1 ms per input octet of CPU time (or 300 s + 1 ms per octet of wall clock) stops the worker and is confirmed 3x in isolation before it is reported. Non-trivial: the decoder consumed >= 8 bits, or the input is a mutated valid encoding; distinct = hash of (target, type, bytes, bit_len).";

pub fn run(ctx: Ctx) -> i32 {
    let report = Report::new(ctx.clone(), RULE);
    report.assumption("a worker that dies without leaving a crash record (e.g. stack overflow) is reported as an infrastructure problem (exit 2), not as a violation");
    report.assumption("two Err outcomes are not compared by the over-read detector: the property restricts only success");
    let zoo: &'static Zoo = Box::leak(Box::new(load_zoo()));
    let replay = |c: &J| -> Result<(), Fail> { check_case(zoo, &Case::from_json(c)).map(|_| ()) };
    // a raw libFuzzer input (timeout / out-of-memory artifacts have no decoded case)
    if let Some(path) = &ctx.replay {
        let j = read_replay(path);
        if let Some(h) = j["case"]["fuzz_input"].as_str() {
            report.eval(1);
            match fuzz_one(zoo, &unhex(h)) {
                None => println!("replay: case passes"),
                Some((key, msg, case)) => {
                    report.fail(&key, &msg, case);
                }
            }
            return report.finish();
        }
    }
    if let Some(path) = &ctx.replay {
        start_watchdog();
        let j = read_replay(path);
        report.eval(1);
        match replay(&j["case"]) {
            Ok(()) => println!("replay: case passes"),
            Err((key, msg)) => {
                report.fail(&key, &msg, j["case"].clone());
            }
        }
        return report.finish();
    }
    report.run_probes(&replay);
    let tier = ctx.tier;
    let n_entries = zoo.entries.len();
    let (n_rand, n_mut, n_proto) = tier.pick((40u32, 60u32, 40u32), (1200u32, 2000u32, 1200u32));
    // the crash file of this worker (also used when running in-process)
    let crash_dir = std::env::var("VERIF_WORKER_DIR").ok();
    if let (Some(dir), Some((i, _))) = (&crash_dir, ctx.worker) {
        if let Ok(f) = std::fs::File::create(std::path::Path::new(dir).join(format!("crash-{i}.json"))) {
            *CRASH_FILE.lock().unwrap() = Some(f);
        }
        start_watchdog();
    }
    let bad = run_in_workers(&report, 16, std::time::Duration::from_secs(tier.pick(900, 14400)), &|report: &Report| {
        let cfg = ValueCfg { big_weight: 0, max_big: 300, max_big_elems: 300, conformance: false, out_of_root: true, cap_open_types: true, hard_limit: None, foreign_chars: false };
        let mut local = Local::default();
        let run_cases = |local: &mut Local, purpose: &str, shard: u64, n: u32, strat: BoxedStrategy<Case>| {
            if report.too_many_violations() {
                return;
            }
            let mut runner = report.ctx.runner(purpose, shard, n);
            let failed = std::cell::Cell::new(false);
            let cell = std::cell::RefCell::new(local);
            let result = runner.run(&strat, |c| {
                let res = check_case(zoo, &c);
                if !failed.get() {
                    let mut l = cell.borrow_mut();
                    l.eval();
                    if let Ok(o) = &res {
                        let tname = match c.target {
                            Target::Uper => "uper",
                            Target::Proto => "proto",
                            Target::Der(_) => "der",
                        };
                        l.class(&format!("{tname}:{}", if o.ok { "Ok".to_string() } else { format!("Err:{}", o.err_kind) }));
                        l.class(&format!("origin:{}", c.origin.split(':').next().unwrap_or("")));
                        if o.consumed >= 8 || c.origin.starts_with("mutated") {
                            l.nontrivial(hash_of(&c));
                            if l.samples.len() < 2 && c.origin.starts_with("mutated") && c.bytes.len() > 2 && c.bytes.len() < 40 {
                                l.sample(json!({"case": c.to_json(), "outcome": if o.ok { "Ok" } else { o.err_kind }, "bits_consumed": o.consumed}));
                            }
                        }
                    }
                }
                res.map(|_| ()).map_err(|(key, msg)| {
                    failed.set(true);
                    TestCaseError::fail(format!("{key}\u{1}{msg}"))
                })
            });
            if let Err(proptest::test_runner::TestError::Fail(reason, c)) = result {
                let r = reason.message().to_string();
                let (key, msg) = r.split_once('\u{1}').unwrap_or(("unknown", &r));
                report.fail(key, msg, c.to_json());
            }
        };
        // sequential inside a worker: the allocation counters are global
        for k in report.ctx.my_shards(n_entries as u64) {
            let ei = k as usize;
            let e = &zoo.entries[ei];
            let (module, ty) = (e.module.name.clone(), e.def.name.clone());
            let (m2, t2) = (module.clone(), ty.clone());
            let rnd = random_bytes_strategy().prop_map(move |(bytes, bit_len)| Case { target: Target::Uper, module: m2.clone(), ty: t2.clone(), bytes, bit_len, origin: "random".into() }).boxed();
            run_cases(&mut local, "c04-rand", ei as u64, n_rand, rnd);
            let values = gen::def_value_strategy(&e.module, &e.def, cfg);
            // valid UPER encodings with faults
            {
                let zoo_ref: &'static Zoo = zoo;
                let (m3, t3) = (module.clone(), ty.clone());
                let strat = (values.clone(), proptest::collection::vec(fault_strategy(), 1..4))
                    .prop_map(move |(v, faults)| {
                        let e = &zoo_ref.entries[ei];
                        let (bytes, bit_len) = match e.build(&v).ok().map(|b| encode(e, &*b)) {
                            Some(Enc::Ok { bytes, bit_len }) => (bytes, bit_len),
                            _ => (vec![], 0),
                        };
                        let origin = format!("mutated:{}", faults.iter().map(|f| format!("{f:?}").split('(').next().unwrap_or("").to_string()).collect::<Vec<_>>().join("+"));
                        let (bytes, bit_len) = apply_faults(&bytes, bit_len, &faults);
                        Case { target: Target::Uper, module: m3.clone(), ty: t3.clone(), bytes, bit_len, origin }
                    })
                    .boxed();
                // the closure borrows the zoo: run it right here
                run_cases(&mut local, "c04-mut", ei as u64, n_mut, strat);
            }
            // protobuf: random bytes and mutated valid encodings
            {
                let zoo_ref: &'static Zoo = zoo;
                let (m4, t4) = (module.clone(), ty.clone());
                let (m5, t5) = (module.clone(), ty.clone());
                let rnd = random_bytes_strategy().prop_map(move |(bytes, _)| Case { target: Target::Proto, module: m4.clone(), ty: t4.clone(), bit_len: bytes.len() * 8, bytes, origin: "random".into() });
                let mutated = (values, proptest::collection::vec(fault_strategy(), 1..4)).prop_map(move |(v, faults)| {
                    let e = &zoo_ref.entries[ei];
                    let bytes = e.build(&v).ok().and_then(|b| catch(|| e.entry.ty.proto_write(&*b)).ok().and_then(|r| r.ok())).unwrap_or_default();
                    let (bytes, _) = apply_faults(&bytes, bytes.len() * 8, &faults);
                    Case { target: Target::Proto, module: m5.clone(), ty: t5.clone(), bit_len: bytes.len() * 8, bytes, origin: "mutated:proto".into() }
                });
                let strat = prop_oneof![1 => rnd, 2 => mutated].boxed();
                run_cases(&mut local, "c04-proto", ei as u64, n_proto, strat);
            }
        }
        // DER
        for k in report.ctx.my_shards(9) {
            let strat = prop_oneof![1 => random_bytes_strategy(), 1 => der_bytes_strategy().prop_map(|b| { let n = b.len() * 8; (b, n) })].prop_map(move |(bytes, _)| Case { target: Target::Der(k as u8), module: String::new(), ty: String::new(), bit_len: bytes.len() * 8, bytes, origin: "random".into() }).boxed();
            run_cases(&mut local, "c04-der", k, tier.pick(20_000, 400_000), strat);
        }
        report.merge_local(&mut local);
    });
    // dead workers: a crash record names the case; confirm it in isolation
    handle_dead_workers(&report, &bad);
    report.extra("zoo_types", json!(n_entries));
    for must in ["uper:Ok", "origin:mutated", "origin:random", "proto:Ok"] {
        if report.class_count(must) == 0 && report.violation_count() == 0 {
            report.infra(&format!("generator fault: class {must} never observed"));
        }
    }
    report.finish()
}

/// A dead worker left its current case in stderr-adjacent crash file (kept by the harness in
/// `stderr_tail` when present). Confirm 3x in isolation with a 30 s limit before reporting.
fn handle_dead_workers(report: &Report, bad: &[WorkerOutcome]) {
    for b in bad {
        let record = b.crash_record.clone();
        match record.and_then(|r| serde_json::from_str::<J>(r.lines().next().unwrap_or("")).ok()) {
            Some(j) => {
                let why = j["why"].as_str().unwrap_or("?").to_string();
                let case = j["case"].clone();
                let path = std::env::temp_dir().join(format!("verif-c04-confirm-{}-{}.json", std::process::id(), b.index));
                let _ = std::fs::write(&path, json!({"case": case}).to_string());
                let exe = std::env::current_exe().expect("exe");
                let mut reproduced = 0;
                for _ in 0..3 {
                    let mut child = match std::process::Command::new(&exe).args(["C04", "--replay", path.to_str().unwrap()]).env("VERIF_OUT", std::env::temp_dir()).stdout(std::process::Stdio::null()).stderr(std::process::Stdio::null()).spawn() {
                        Ok(c) => c,
                        Err(_) => break,
                    };
                    let t0 = std::time::Instant::now();
                    let status = loop {
                        match child.try_wait() {
                            Ok(Some(s)) => break Some(s),
                            Ok(None) if t0.elapsed().as_secs() > 120 + (case["bytes"].as_str().map(|b| b.len() / 2).unwrap_or(0) / 1000) as u64 => {
                                let _ = child.kill();
                                let _ = child.wait();
                                break None;
                            }
                            Ok(None) => std::thread::sleep(std::time::Duration::from_millis(50)),
                            Err(_) => break None,
                        }
                    };
                    match status {
                        None => reproduced += 1,
                        Some(s) if !s.success() && s.code() != Some(1) => reproduced += 1, // abort / watchdog exit
                        Some(s) if s.code() == Some(1) => reproduced += 1,                  // plain violation on replay
                        _ => {}
                    }
                }
                let _ = std::fs::remove_file(&path);
                if reproduced == 3 {
                    report.fail(&format!("worker-died:{why}"), &format!("a decode did not return normally ({why}); reproduced 3 times in isolation"), case);
                } else {
                    report.infra(&format!("worker {} stopped ({why}) on a case that reproduced only {reproduced}/3 times in isolation (inconclusive)", b.index));
                }
            }
            None => dead_workers_are_infra(report, std::slice::from_ref(b)),
        }
    }
}


/// fuzz entry (engine/fuzz decoders). byte 0 selects the reader, bytes 1-2 the zoo type:
/// 0 = UPER (byte 3: number of unused trailing bits), 1 = protobuf, 2 = DER primitive (byte 1: which);
/// the rest is the input of the reader. The seed corpus (`fuzz_corpus`) holds valid encodings.
pub fn fuzz_one(zoo: &Zoo, data: &[u8]) -> Option<(String, String, J)> {
    if data.len() < 4 {
        return None;
    }
    let n = zoo.entries.len();
    let ei = ((u16::from_le_bytes([data[1], data[2]]) as usize) * n) >> 16;
    let e = &zoo.entries[ei];
    let rest = &data[4..];
    let case = match data[0] % 3 {
        0 => {
            let trim = (data[3] & 7) as usize;
            Case { target: Target::Uper, module: e.module.name.clone(), ty: e.def.name.clone(), bytes: rest.to_vec(), bit_len: (rest.len() * 8).saturating_sub(trim), origin: "fuzz".into() }
        }
        1 => Case { target: Target::Proto, module: e.module.name.clone(), ty: e.def.name.clone(), bytes: rest.to_vec(), bit_len: rest.len() * 8, origin: "fuzz".into() },
        _ => Case { target: Target::Der(data[1] % 9), module: String::new(), ty: String::new(), bytes: rest.to_vec(), bit_len: rest.len() * 8, origin: "fuzz".into() },
    };
    check_case(zoo, &case).err().map(|(k, m)| (k, m, case.to_json()))
}

/// seed corpus for the decoders target: valid UPER and protobuf encodings of generated values of
/// every `step`-th zoo type, in the input format of `fuzz_one`
pub fn fuzz_corpus(zoo: &Zoo, dir: &std::path::Path, seed: u64, step: usize) -> usize {
    let cfg = ValueCfg { big_weight: 0, max_big: 60, max_big_elems: 60, conformance: false, out_of_root: true, cap_open_types: true, hard_limit: None, foreign_chars: false };
    let n = zoo.entries.len();
    let mut written = 0;
    for ei in (0..n).step_by(step.max(1)) {
        let e = &zoo.entries[ei];
        // smallest selector that maps to ei
        let sel = ((ei << 16) + n - 1) / n;
        if sel > u16::MAX as usize || ((sel * n) >> 16) != ei {
            continue;
        }
        let sel = (sel as u16).to_le_bytes();
        for k in 0..2u64 {
            let Some(v) = from_fuzz_bytes(&gen::def_value_strategy(&e.module, &e.def, cfg), &(seed, ei as u64, k).0.to_le_bytes().iter().chain(&(ei as u64 * 2 + k).to_le_bytes()).copied().collect::<Vec<u8>>()) else { continue };
            let Ok(built) = e.build(&v) else { continue };
            if let Enc::Ok { bytes, bit_len } = encode(e, &*built) {
                if bytes.len() <= 400 {
                    let mut f = vec![0u8, sel[0], sel[1], (bytes.len() * 8 - bit_len) as u8];
                    f.extend_from_slice(&bytes);
                    written += std::fs::write(dir.join(format!("u-{ei}-{k}")), f).is_ok() as usize;
                }
            }
            if let Ok(Ok(bytes)) = catch(|| e.entry.ty.proto_write(&*built)) {
                if bytes.len() <= 400 {
                    let mut f = vec![1u8, sel[0], sel[1], 0];
                    f.extend_from_slice(&bytes);
                    written += std::fs::write(dir.join(format!("p-{ei}-{k}")), f).is_ok() as usize;
                }
            }
        }
    }
    written
}
