//! C17 — protobuf round trip preserves values up to proto3 default equivalence; the growable and
//! the fixed-slice writer produce identical bytes.

use crate::common::*;
use proptest::prelude::*;
use rayon::prelude::*;
use serde_json::{json, Value as J};
use vcore::gen::{self, ValueCfg};
use vcore::harness::*;
use vcore::refcodec::wrap_for;
use vcore::schema::*;

type Fail = (String, String);

/// the Rust `Default` of the generated type for `ty` (what proto3 cannot distinguish from "absent")
pub fn rust_default(m: &Module, ty: &Type) -> Value {
    match ty {
        Type::Ref(n) => {
            let d = m.def(n).expect("reference");
            let inner = rust_default(m, &d.ty);
            if d.ty.is_own_rust_type() {
                inner
            } else {
                Value::wrap(inner)
            }
        }
        Type::Boolean => Value::Bool(false),
        Type::Null => Value::Null,
        Type::Integer { .. } => Value::Int(0),
        Type::Enumerated { .. } => Value::Enum(0),
        Type::BitString { .. } => Value::Bits(vec![]),
        Type::OctetString { .. } => Value::Bytes(vec![]),
        Type::Str { .. } => Value::Str(String::new()),
        Type::Sequence(f) | Type::Set(f) => {
            let n_root = f.root.unwrap_or(f.comps.len());
            Value::Seq(
                f.comps
                    .iter()
                    .enumerate()
                    .map(|(i, c)| match &c.presence {
                        Presence::Optional => None,
                        Presence::Mandatory if i >= n_root => None,
                        _ => Some(rust_default(m, &c.ty)),
                    })
                    .collect(),
            )
        }
        Type::SequenceOf { .. } | Type::SetOf { .. } => Value::List(vec![]),
        Type::Choice { alts, .. } => Value::Choice(0, Box::new(rust_default(m, &alts[0].ty))),
    }
}

/// normalisation mirroring ProtobufEq: "an absent optional and a present default-ish value are
/// indistinguishable" — a present optional equal to the Rust default of its type becomes absent
pub fn pnorm(m: &Module, ty: &Type, v: &Value) -> Value {
    match (ty, v) {
        (Type::Ref(n), v) => {
            let d = m.def(n).expect("reference");
            if d.ty.is_own_rust_type() {
                pnorm(m, &d.ty, v)
            } else {
                match v {
                    Value::Seq(s) if s.len() == 1 => Value::Seq(vec![s[0].as_ref().map(|x| pnorm(m, &d.ty, x))]),
                    o => o.clone(),
                }
            }
        }
        (Type::Sequence(f), Value::Seq(slots)) | (Type::Set(f), Value::Seq(slots)) if slots.len() == f.comps.len() => {
            let n_root = f.root.unwrap_or(f.comps.len());
            Value::Seq(
                f.comps
                    .iter()
                    .zip(slots)
                    .enumerate()
                    .map(|(i, (c, s))| {
                        let optional = matches!(c.presence, Presence::Optional) || (i >= n_root && matches!(c.presence, Presence::Mandatory));
                        match s {
                            None => None,
                            Some(x) => {
                                let nx = pnorm(m, &c.ty, x);
                                if optional && nx == pnorm(m, &c.ty, &rust_default(m, &c.ty)) {
                                    None
                                } else {
                                    Some(nx)
                                }
                            }
                        }
                    })
                    .collect(),
            )
        }
        (Type::SequenceOf { elem, .. }, Value::List(l)) | (Type::SetOf { elem, .. }, Value::List(l)) => Value::List(l.iter().map(|x| pnorm(m, elem, x)).collect()),
        (Type::Choice { alts, .. }, Value::Choice(i, x)) if *i < alts.len() => Value::Choice(*i, Box::new(pnorm(m, &alts[*i].ty, x))),
        (_, v) => v.clone(),
    }
}

pub fn def_pnorm(m: &Module, d: &Def, v: &Value) -> Value {
    if d.ty.is_own_rust_type() {
        pnorm(m, &d.ty, v)
    } else {
        match v {
            Value::Seq(s) if s.len() == 1 => Value::Seq(vec![s[0].as_ref().map(|x| pnorm(m, &d.ty, x))]),
            o => o.clone(),
        }
    }
}

/// nested lists (a list directly inside a list) fall under an open known finding
pub fn has_nested_list(m: &Module, ty: &Type, in_list: bool, guard: usize) -> bool {
    if guard > 40 {
        return false;
    }
    match ty {
        Type::Ref(n) => {
            let d = m.def(n).expect("reference");
            // an alias definition is a message of its own: it breaks the direct nesting
            has_nested_list(m, &d.ty, false, guard + 1)
        }
        Type::SequenceOf { elem, .. } | Type::SetOf { elem, .. } => in_list || has_nested_list(m, elem, true, guard + 1),
        Type::Sequence(f) | Type::Set(f) => f.comps.iter().any(|c| has_nested_list(m, &c.ty, false, guard + 1)),
        Type::Choice { alts, .. } => alts.iter().any(|a| has_nested_list(m, &a.ty, false, guard + 1)),
        _ => false,
    }
}

/// a list that is directly an alternative of a CHOICE (`repeated` inside `oneof`): open known finding
pub fn has_list_in_choice(m: &Module, ty: &Type, guard: usize) -> bool {
    if guard > 40 {
        return false;
    }
    match ty {
        Type::Ref(n) => has_list_in_choice(m, &m.def(n).expect("reference").ty, guard + 1),
        Type::SequenceOf { elem, .. } | Type::SetOf { elem, .. } => has_list_in_choice(m, elem, guard + 1),
        Type::Sequence(f) | Type::Set(f) => f.comps.iter().any(|c| has_list_in_choice(m, &c.ty, guard + 1)),
        Type::Choice { alts, .. } => alts.iter().any(|a| matches!(a.ty, Type::SequenceOf { .. } | Type::SetOf { .. }) || has_list_in_choice(m, &a.ty, guard + 1)),
        _ => false,
    }
}

pub fn check_value(zoo: &Zoo, ei: usize, v: &Value) -> Result<(&'static str, usize), Fail> {
    let e = &zoo.entries[ei];
    let id = e.id();
    let built = match e.build(v) {
        Ok(b) => b,
        Err(_) => return Ok(("unbuildable", 0)),
    };
    let bytes = match catch(|| e.entry.ty.proto_write(&*built)) {
        Err(p) => return Err((format!("write-panic:{}", panic_class(&p)), format!("{id}: the protobuf writer panicked on {}: {p}", v.brief()))),
        Ok(Err(err)) => return Err(("write-error".into(), format!("{id}: the growable protobuf writer failed on {}: {}", v.brief(), err.chars().take(200).collect::<String>()))),
        Ok(Ok(b)) => b,
    };
    // "for both the growable and the fixed-slice writer back ends, which also produce identical bytes"
    match catch(|| e.entry.ty.proto_write_slice(&*built, bytes.len())) {
        Err(p) => return Err((format!("slice-writer-panic:{}", panic_class(&p)), format!("{id}: the slice writer panicked with an exactly sized slice: {p}"))),
        Ok(Err(err)) => return Err(("slice-writer-error".into(), format!("{id}: the slice writer failed with an exactly sized slice ({} bytes): {}", bytes.len(), err.chars().take(200).collect::<String>()))),
        Ok(Ok(b2)) => {
            if b2 != bytes {
                return Err(("writers-differ".into(), format!("{id}: growable writer {} vs slice writer {} for {}", hex(&bytes), hex(&b2), v.brief())));
            }
        }
    }
    // (every Err of the protobuf back end resolves a backtrace, ~ms: sampled)
    if !bytes.is_empty() && hash_of(&bytes) % 8 == 0 {
        match catch(|| e.entry.ty.proto_write_slice(&*built, bytes.len() - 1)) {
            Err(p) => return Err((format!("slice-writer-panic:{}", panic_class(&p)), format!("{id}: the slice writer panicked with a slice one byte too small: {p}"))),
            Ok(Ok(_)) => return Err(("slice-writer-overflow-ok".into(), format!("{id}: the slice writer reports success although the slice is one byte too small ({} bytes needed)", bytes.len()))),
            Ok(Err(_)) => {}
        }
    }
    let back = match catch(|| e.entry.ty.proto_read(&bytes)) {
        Err(p) => return Err((format!("read-panic:{}", panic_class(&p)), format!("{id}: the protobuf reader panicked on the writer's bytes {}: {p}", hex(&bytes)))),
        Ok(Err(err)) => return Err(("read-error".into(), format!("{id}: the reader rejects the writer's bytes {} of {}: {}", hex(&bytes), v.brief(), err.chars().take(160).collect::<String>()))),
        Ok(Ok(b)) => b,
    };
    let got = e.extract(&*back).map_err(|x| ("harness:extract".to_string(), x))?;
    let a = def_pnorm(&e.module, &e.def, v);
    let b = def_pnorm(&e.module, &e.def, &got);
    if a != b {
        return Err(("value-differs".into(), format!("{id}: wrote {} read {} (bytes {})", v.brief(), got.brief(), hex(&bytes))));
    }
    let _ = wrap_for;
    Ok(("round-trip", bytes.len()))
}

const RULE: &str = "programs: every definition of the compiled zoo (feature protobuf); inputs: schema-directed boundary-biased values incl. integer extremes of every width/sign, out-of-root values of extensible integers, CHOICE in CHOICE, NULL, BIT STRING, empty strings/lists, present default-ish optionals (proptest). Oracle: bytes of ProtobufWriter::default() == bytes of ProtobufWriter::from(&mut [u8]) with an exactly sized slice; a slice one byte too small gives Err (not panic, not Ok); ProtobufReader on the bytes returns a value whose abstract form equals the original after pnorm (a present optional equal to the Rust Default of its type == absent; everything else identical). Non-trivial: the message has >= 2 fields or a nested message / list / choice; distinct = (type, bytes).";

pub fn run(ctx: Ctx) -> i32 {
    let report = Report::new(ctx.clone(), RULE);
    report.assumption("pnorm mirrors ProtobufEq (peq.rs): only OPTIONAL positions are subject to the default equivalence");
    let zoo = load_zoo();
    let replay = |c: &J| -> Result<(), Fail> {
        let ei = crate::uper::find_entry(&zoo, c["module"].as_str().unwrap_or(""), c["type"].as_str().unwrap_or("")).ok_or_else(|| ("harness:replay".to_string(), "type not in the compiled zoo".to_string()))?;
        let v: Value = serde_json::from_value(c["value"].clone()).map_err(|e| ("harness:replay".to_string(), e.to_string()))?;
        check_value(&zoo, ei, &v).map(|_| ())
    };
    if let Some(path) = &ctx.replay {
        let j = read_replay(path);
        report.eval(1);
        match replay(&j["case"]) {
            Ok(()) => println!("replay: case passes"),
            Err((key, msg)) => {
                report.fail(&key, &msg, j["case"].clone());
            }
        }
        return report.finish();
    }
    report.run_probes(&replay);
    let tier = ctx.tier;
    let n_entries = zoo.entries.len();
    let per_entry = tier.pick(200u32, 1500u32);
    let exclude_nested = report.known.is_open("C17", "protobuf-nested-lists");
    let exclude_list_in_choice = report.known.is_open("C17", "protobuf-list-in-choice");
    let bad = run_in_workers(&report, 16, std::time::Duration::from_secs(tier.pick(900, 10800)), &|report: &Report| {
        let cfg = ValueCfg { big_weight: 0, max_big: 300, max_big_elems: 300, conformance: false, out_of_root: true, cap_open_types: false, hard_limit: None, foreign_chars: false };
        report.ctx.my_shards(n_entries as u64).par_iter().for_each(|&k| {
            if report.too_many_violations() {
                return;
            }
            let ei = k as usize;
            let e = &zoo.entries[ei];
            let mut local = Local::default();
            if exclude_nested && has_nested_list(&e.module, &e.def.ty, false, 0) {
                local.class("excluded-by-known-findings:nested-lists");
                report.merge_local(&mut local);
                return;
            }
            if exclude_list_in_choice && has_list_in_choice(&e.module, &e.def.ty, 0) {
                local.class("excluded-by-known-findings:list-in-choice");
                report.merge_local(&mut local);
                return;
            }
            let strat = gen::def_value_strategy(&e.module, &e.def, cfg);
            let mut runner = report.ctx.runner("c17", ei as u64, per_entry);
            let failed = std::cell::Cell::new(false);
            let cell = std::cell::RefCell::new(&mut local);
            let result = runner.run(&strat, |v| {
                let res = check_value(&zoo, ei, &v);
                if !failed.get() {
                    let mut l = cell.borrow_mut();
                    l.eval();
                    if let Ok((what, len)) = &res {
                        l.class(what);
                        if *what == "round-trip" {
                            let sh = shape_of(&v);
                            if sh.depth >= 1 || sh.has_choice {
                                l.nontrivial(hash_of(&(ei, &v)));
                            }
                            if *len == 0 {
                                l.class("empty-encoding");
                            }
                            if l.samples.len() < 1 && *len > 4 && *len < 60 {
                                l.sample(json!({"type": e.id(), "asn1": vcore::print::type_text(&e.def.ty), "value": v.brief(), "bytes": *len}));
                            }
                        }
                    }
                }
                res.map(|_| ()).map_err(|(key, msg)| {
                    failed.set(true);
                    TestCaseError::fail(format!("{key}\u{1}{msg}"))
                })
            });
            if let Err(proptest::test_runner::TestError::Fail(reason, v)) = result {
                let r = reason.message().to_string();
                let (key, msg) = r.split_once('\u{1}').unwrap_or(("unknown", &r));
                report.fail(key, msg, json!({"module_text": e.text(), "module": e.module.name, "type": e.def.name, "asn1": vcore::print::type_text(&e.def.ty), "value_brief": v.brief(), "value": serde_json::to_value(&v).unwrap()}));
            }
            report.merge_local(&mut local);
        });
    });
    dead_workers_are_infra(&report, &bad);
    report.extra("zoo_types", json!(n_entries));
    if report.class_count("round-trip") == 0 && report.violation_count() == 0 {
        report.infra("no value round-tripped");
    }
    report.finish()
}
