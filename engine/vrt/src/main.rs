//! vrt: run-time checks over the compiled type zoo.
mod c03;
mod c04;
mod c05;
mod c06;
mod c08b;
mod c17;
mod c18b;
mod c19;
mod common;
mod uper;

#[global_allocator]
static ALLOC: c04::Counting = c04::Counting;

fn main() {
    vcore::harness::install_quiet_panic_hook();
    let args: Vec<String> = std::env::args().skip(1).collect();
    let ctx = vcore::harness::Ctx::from_args(&args);
    let code = match ctx.prop.as_str() {
        "C01" => uper::run_c01(ctx),
        "C02" => uper::run_c02(ctx),
        "C03" => c03::run(ctx),
        "C04" => c04::run(ctx),
        "C05" => c05::run(ctx),
        "C06" => c06::run(ctx),
        "C08" => c08b::run(ctx),
        "C16" => uper::run_c16b(ctx),
        "C17" => c17::run(ctx),
        "C18" => c18b::run(ctx),
        "C19" => c19::run(ctx),
        other => {
            eprintln!("vrt does not serve {other}");
            2
        }
    };
    std::process::exit(code);
}
