//! vrt: run-time checks over the compiled type zoo.
use vrt::*;

#[global_allocator]
static ALLOC: c04::Counting = c04::Counting;

fn main() {
    vcore::harness::install_quiet_panic_hook();
    let args: Vec<String> = std::env::args().skip(1).collect();
    if args.first().map(|s| s.as_str()) == Some("fuzz-corpus") {
        // vrt fuzz-corpus <dir> <seed>: seed corpus of the decoders fuzz target
        let zoo = common::load_zoo();
        let n = c04::fuzz_corpus(&zoo, std::path::Path::new(&args[1]), args.get(2).and_then(|s| s.parse().ok()).unwrap_or(1), 3);
        println!("{n} corpus files");
        return;
    }
    let ctx = vcore::harness::Ctx::from_args(&args);
    let code = match ctx.prop.as_str() {
        "C01" => uper::run_c01(ctx),
        "C02" => uper::run_c02(ctx),
        "C03" => c03::run(ctx),
        "C04" => c04::run(ctx),
        "C05" => c05::run(ctx),
        "C06" => c06::run(ctx),
        "C08" => c08b::run(ctx),
        "C16" => uper::run_c16b(ctx),
        "C17" => c17::run(ctx),
        "C18" => c18b::run(ctx),
        "C19" => c19::run(ctx),
        other => {
            eprintln!("vrt does not serve {other}");
            2
        }
    };
    std::process::exit(code);
}
