//! C18 part b — the bytes of the protobuf writer, decoded with an independent wire decoder under
//! the generated .proto schema (parsed with the independent mini-parser), give back the value
//! that was written: field numbers, wire types, oneof and enum numbering and nesting come from
//! the .proto text only.

use crate::c17::{def_pnorm, has_list_in_choice, has_nested_list, rust_default};
use crate::common::*;
use asn1rs_model::generate::protobuf::ProtobufDefGenerator;
use asn1rs_model::generate::Generator;
use asn1rs_model::parse::Tokenizer;
use asn1rs_model::protobuf::ToProtobufModel;
use asn1rs_model::Model;
use proptest::prelude::*;
use rayon::prelude::*;
use serde_json::{json, Value as J};
use std::collections::BTreeMap;
use vcore::gen::{self, ValueCfg};
use vcore::harness::*;
use vcore::proto::{self, PDef, PField, PFile, Wire};
use vcore::schema::*;

type Fail = (String, String);

pub fn proto_text(asn: &str) -> Result<String, String> {
    catch(|| {
        let tokens = Tokenizer::default().parse(asn);
        let model = Model::try_from(tokens).map_err(|e| format!("parse: {e}"))?.try_resolve().map_err(|e| format!("resolve: {e}"))?;
        let mut g = ProtobufDefGenerator::default();
        g.add_model(model.to_rust().to_protobuf());
        g.to_string().map(|files| files.into_iter().map(|(_, c)| c).collect::<Vec<_>>().join("\n")).map_err(|e| format!("{e:?}"))
    })
    .map_err(|p| format!("panic: {p}"))?
}

pub struct Schema {
    pub text: String,
    pub file: PFile,
    pub idx: BTreeMap<String, PDef>,
}

fn loose(s: &str) -> String {
    s.chars().filter(|c| c.is_ascii_alphanumeric()).map(|c| c.to_ascii_lowercase()).collect()
}

impl Schema {
    pub fn new(text: String) -> Result<Schema, String> {
        let file = proto::parse(&text)?;
        let idx = proto::index(&file);
        Ok(Schema { text, file, idx })
    }
    /// the message generated for a top-level definition (names compared without case and
    /// punctuation: name mangling is not part of this property)
    fn top(&self, name: &str) -> Option<&PDef> {
        let want = loose(name);
        let mut hits = self.file.defs.iter().filter(|d| match d {
            PDef::Message { name, .. } | PDef::Enum { name, .. } => loose(name) == want,
        });
        let first = hits.next();
        if hits.next().is_some() {
            return None;
        }
        first
    }
    fn get(&self, name: &str) -> Option<&PDef> {
        // (type names may be package-qualified)
        self.idx.get(name).or_else(|| self.idx.get(name.rsplit('.').next().unwrap_or(name)))
    }
}

fn real_fields(fields: &[PField]) -> Vec<&PField> {
    fields.iter().filter(|f| f.ty != "oneof").collect()
}

/// component i -> index of its declared field: by name (compared without case and punctuation;
/// declaration order carries no meaning in a .proto file), by position where names do not pair up
fn pair_up(names: &[&str], real: &[&PField]) -> Vec<usize> {
    let mut out = Vec::new();
    for n in names {
        let hits: Vec<usize> = real.iter().enumerate().filter(|(_, f)| loose(&f.name) == loose(n)).map(|(i, _)| i).collect();
        if hits.len() != 1 || out.contains(&hits[0]) {
            return (0..names.len()).collect();
        }
        out.push(hits[0]);
    }
    out
}

fn v<T>(key: &str, msg: String) -> Result<T, Fail> {
    Err((key.to_string(), msg))
}

struct Dec<'a> {
    m: &'a Module,
    s: &'a Schema,
}

impl<'a> Dec<'a> {
    fn resolve(&self, ty: &'a Type) -> (&'a Type, bool) {
        // -> (type, reached through a reference to a transparent wrapper definition)
        match ty {
            Type::Ref(n) => {
                let d = self.m.def(n).expect("reference");
                (&d.ty, !d.ty.is_own_rust_type())
            }
            o => (o, false),
        }
    }

    fn message(&self, path: &str, name: &str) -> Result<&'a [PField], Fail> {
        match self.s.get(name) {
            Some(PDef::Message { fields, .. }) => Ok(fields),
            Some(PDef::Enum { .. }) => v("declared-type-kind", format!("{path}: `{name}` is declared as enum where a message is needed")),
            None => v("declared-type-kind", format!("{path}: type `{name}` is not a message of the .proto file")),
        }
    }

    fn scalar(&self, path: &str, ty: &Type, pf: &PField, w: &Wire) -> Result<Value, Fail> {
        let is_enum = matches!(self.s.get(&pf.ty), Some(PDef::Enum { .. }));
        let want = proto::wire_kind_for(&pf.ty, is_enum, false);
        if w.kind() != want {
            return v("wire-type", format!("{path}: field {} is declared `{}` (wire type {want}) but the writer used wire type {}", pf.number, pf.ty, w.kind()));
        }
        let declared = |ok: &[&str]| -> Result<(), Fail> {
            if ok.contains(&pf.ty.as_str()) {
                Ok(())
            } else {
                v("declared-scalar-type", format!("{path}: a {} is declared as `{}` in the .proto file", ty.kind(), pf.ty))
            }
        };
        match (ty, w) {
            (Type::Boolean, Wire::Varint(x)) => {
                declared(&["bool"])?;
                if *x > 1 {
                    return v("bool-value", format!("{path}: bool field carries {x}"));
                }
                Ok(Value::Bool(*x == 1))
            }
            (Type::Integer { .. }, Wire::Varint(x)) => {
                declared(&["uint32", "uint64", "sint32", "sint64", "int32", "int64"])?;
                let val: i128 = match pf.ty.as_str() {
                    // (a conforming parser truncates a longer varint to the declared 32 bits)
                    "uint32" => (*x as u32) as i128,
                    "uint64" => *x as i128,
                    "sint32" => {
                        let t = *x as u32;
                        (((t >> 1) as i32) ^ -((t & 1) as i32)) as i128
                    }
                    "sint64" => proto::zigzag(*x) as i128,
                    "int32" => (*x as u32 as i32) as i128,
                    _ => (*x as i64) as i128,
                };
                Ok(Value::Int(val))
            }
            (Type::Enumerated { items, .. }, Wire::Varint(x)) => {
                let Some(PDef::Enum { values, name }) = self.s.get(&pf.ty) else {
                    return v("declared-type-kind", format!("{path}: an ENUMERATED is declared as `{}`, which is not an enum of the .proto file", pf.ty));
                };
                if values.len() != items.len() {
                    return v("enum-size", format!("{path}: enum {name} has {} values for {} ENUMERATED items", values.len(), items.len()));
                }
                // item i <-> the declared value of that name (`<ENUM>_<ITEM>`), by position where
                // the names do not pair up
                let prefix = loose(name);
                let stripped: Vec<String> = values.iter().map(|(n, _)| loose(n).strip_prefix(&prefix).map(|s| s.to_string()).unwrap_or_else(|| loose(n))).collect();
                let mut pairing: Vec<usize> = Vec::new();
                for (item, _) in items {
                    let hits: Vec<usize> = stripped.iter().enumerate().filter(|(_, s)| **s == loose(item)).map(|(i, _)| i).collect();
                    if hits.len() != 1 || pairing.contains(&hits[0]) {
                        pairing = (0..items.len()).collect();
                        break;
                    }
                    pairing.push(hits[0]);
                }
                match (0..items.len()).find(|i| values[pairing[*i]].1 >= 0 && values[pairing[*i]].1 as u64 == *x) {
                    Some(i) => Ok(Value::Enum(i)),
                    None => v("enum-number", format!("{path}: the writer sent enum number {x}, which enum {name} does not declare")),
                }
            }
            (Type::Null, Wire::Len(b)) => {
                declared(&["bytes"])?;
                if !b.is_empty() {
                    return v("null-content", format!("{path}: NULL carries {} bytes", b.len()));
                }
                Ok(Value::Null)
            }
            (Type::Str { .. }, Wire::Len(b)) => {
                declared(&["string"])?;
                match String::from_utf8(b.clone()) {
                    Ok(s) => Ok(Value::Str(s)),
                    Err(_) => v("string-not-utf8", format!("{path}: a `string` field carries bytes that are not UTF-8: {}", hex(b))),
                }
            }
            (Type::OctetString { .. }, Wire::Len(b)) => {
                declared(&["bytes"])?;
                Ok(Value::Bytes(b.clone()))
            }
            (Type::BitString { .. }, Wire::Len(b)) => {
                declared(&["bytes"])?;
                // asn1rs convention (proto_write.rs write_bit_string): the octets, then the bit
                // count as 8 big-endian bytes
                if b.len() < 8 {
                    return v("bit-string-layout", format!("{path}: BIT STRING field of {} bytes has no room for the bit count", b.len()));
                }
                let (data, len) = b.split_at(b.len() - 8);
                let n = u64::from_be_bytes(len.try_into().unwrap()) as usize;
                if (n + 7) / 8 != data.len() {
                    return v("bit-string-layout", format!("{path}: BIT STRING field says {n} bits but carries {} octets", data.len()));
                }
                Ok(Value::Bits((0..n).map(|i| data[i / 8] & (0x80 >> (i % 8)) != 0).collect()))
            }
            (t, w) => v("wire-type", format!("{path}: a {} arrived with wire type {}", t.kind(), w.kind())),
        }
    }

    /// one occurrence of a non-repeated component
    fn single(&self, path: &str, ty: &'a Type, pf: &PField, w: &Wire) -> Result<Value, Fail> {
        let (inner, wrapper) = self.resolve(ty);
        if wrapper {
            // reference to a transparent wrapper: a message with the one field
            let fields = self.message(path, &pf.ty)?;
            let Wire::Len(b) = w else {
                return v("wire-type", format!("{path}: field {} is declared as message `{}` but the writer used wire type {}", pf.number, pf.ty, w.kind()));
            };
            return self.wrapper_body(path, inner, fields, b);
        }
        match inner {
            Type::Sequence(f) | Type::Set(f) => {
                let fields = self.message(path, &pf.ty)?;
                let Wire::Len(b) = w else {
                    return v("wire-type", format!("{path}: field {} is declared as message `{}` but the writer used wire type {}", pf.number, pf.ty, w.kind()));
                };
                self.structure(path, f, fields, b)
            }
            Type::Choice { alts, .. } => {
                let fields = self.message(path, &pf.ty)?;
                let Wire::Len(b) = w else {
                    return v("wire-type", format!("{path}: field {} is declared as message `{}` but the writer used wire type {}", pf.number, pf.ty, w.kind()));
                };
                self.choice(path, alts, fields, b)
            }
            Type::SequenceOf { .. } | Type::SetOf { .. } => v("harness:nested-list", format!("{path}: list directly in a list / choice (excluded known finding)")),
            Type::Ref(_) => v("harness:ref", format!("{path}: reference chain")),
            prim => self.scalar(path, prim, pf, w),
        }
    }

    fn wrapper_body(&self, path: &str, inner: &'a Type, fields: &'a [PField], b: &[u8]) -> Result<Value, Fail> {
        let real = real_fields(fields);
        if real.len() != 1 {
            return v("field-count", format!("{path}: the wrapper message declares {} fields", real.len()));
        }
        let wires = self.wires(path, fields, b)?;
        let comp = self.component(&format!("{path}.0"), inner, real[0], &wires, false)?;
        Ok(Value::Seq(vec![comp]))
    }

    fn wires(&self, path: &str, fields: &[PField], b: &[u8]) -> Result<Vec<(u64, Wire)>, Fail> {
        let wires = proto::decode_fields(b).map_err(|e| ("wire-malformed".to_string(), format!("{path}: {e} in {}", hex(b))))?;
        for (n, w) in &wires {
            if !fields.iter().any(|f| f.ty != "oneof" && f.number == *n) {
                return v("undeclared-field-number", format!("{path}: the writer sent field number {n} ({}), which the message does not declare (declared: {:?})", w.kind(), real_fields(fields).iter().map(|f| f.number).collect::<Vec<_>>()));
            }
        }
        Ok(wires)
    }

    /// the value of one component from all wire entries of the message; None = absent
    fn component(&self, path: &str, ty: &'a Type, pf: &PField, wires: &[(u64, Wire)], optional: bool) -> Result<Option<Value>, Fail> {
        let mine: Vec<&Wire> = wires.iter().filter(|(n, _)| *n == pf.number).map(|(_, w)| w).collect();
        let (inner, wrapper) = self.resolve(ty);
        if let (false, Type::SequenceOf { elem, .. } | Type::SetOf { elem, .. }) = (wrapper, inner) {
            if !pf.repeated {
                return v("not-repeated", format!("{path}: a list is declared as non-repeated field `{}`", pf.name));
            }
            let mut out = Vec::new();
            let (e_inner, e_wrapper) = self.resolve(elem);
            let packable = !e_wrapper && matches!(e_inner, Type::Boolean | Type::Integer { .. } | Type::Enumerated { .. });
            for w in mine {
                match w {
                    Wire::Len(b) if packable => {
                        // packed encoding of scalar numeric elements
                        let mut pos = 0usize;
                        while pos < b.len() {
                            let x = proto::read_varint(b, &mut pos).map_err(|e| ("wire-malformed".to_string(), format!("{path}: packed field: {e}")))?;
                            out.push(self.single(path, elem, pf, &Wire::Varint(x))?);
                        }
                    }
                    w => out.push(self.single(path, elem, pf, w)?),
                }
            }
            return Ok(Some(Value::List(out)));
        }
        if pf.repeated {
            return v("repeated", format!("{path}: a {} is declared as repeated field `{}`", inner.kind(), pf.name));
        }
        if mine.len() > 1 {
            return v("sent-twice", format!("{path}: the non-repeated field {} was sent {} times", pf.number, mine.len()));
        }
        match mine.first() {
            Some(w) => Ok(Some(self.single(path, ty, pf, w)?)),
            None if optional => Ok(None),
            // proto3: an absent field has the default value of its type
            None => Ok(Some(rust_default(self.m, ty))),
        }
    }

    fn structure(&self, path: &str, f: &'a Fields, fields: &'a [PField], b: &[u8]) -> Result<Value, Fail> {
        let real = real_fields(fields);
        if real.len() != f.comps.len() {
            return v("field-count", format!("{path}: the message declares {} fields for {} components", real.len(), f.comps.len()));
        }
        let wires = self.wires(path, fields, b)?;
        let n_root = f.root.unwrap_or(f.comps.len());
        let mut slots = Vec::new();
        let pairing = pair_up(&f.comps.iter().map(|c| c.name.as_str()).collect::<Vec<_>>(), &real);
        for (i, c) in f.comps.iter().enumerate() {
            let pf = real[pairing[i]];
            let optional = matches!(c.presence, Presence::Optional) || (i >= n_root && matches!(c.presence, Presence::Mandatory));
            slots.push(self.component(&format!("{path}.{}", c.name), &c.ty, pf, &wires, optional)?);
        }
        Ok(Value::Seq(slots))
    }

    fn choice(&self, path: &str, alts: &'a [Alt], fields: &'a [PField], b: &[u8]) -> Result<Value, Fail> {
        let real = real_fields(fields);
        if real.len() != alts.len() {
            return v("field-count", format!("{path}: the message declares {} fields for {} alternatives", real.len(), alts.len()));
        }
        if let Some(f) = real.iter().find(|f| !f.in_oneof) {
            return v("not-in-oneof", format!("{path}: alternative `{}` is declared outside of a oneof", f.name));
        }
        let wires = self.wires(path, fields, b)?;
        // proto3: the last member of a oneof on the wire wins; a conforming writer sends exactly one
        if wires.len() != 1 {
            return v("oneof-count", format!("{path}: {} members of the oneof are on the wire ({}); a set oneof member is always serialised, and only one can be set", wires.len(), hex(b)));
        }
        let (n, w) = &wires[0];
        let pairing = pair_up(&alts.iter().map(|a| a.name.as_str()).collect::<Vec<_>>(), &real);
        let i = (0..alts.len()).find(|i| real[pairing[*i]].number == *n).expect("checked by wires()");
        let val = self.single(&format!("{path}.{}", alts[i].name), &alts[i].ty, real[pairing[i]], w)?;
        Ok(Value::Choice(i, Box::new(val)))
    }

    fn def(&self, d: &'a Def, bytes: &[u8]) -> Result<Option<Value>, Fail> {
        let path = d.name.clone();
        let top = match self.s.top(&d.name) {
            Some(t) => t,
            None => return v("no-message-for-type", format!("{path}: the .proto file has no (unique) definition for this type")),
        };
        match (&d.ty, top) {
            (Type::Enumerated { .. }, PDef::Enum { .. }) => Ok(None),
            (_, PDef::Enum { name, .. }) => v("declared-type-kind", format!("{path}: declared as enum {name}")),
            (Type::Sequence(f), PDef::Message { fields, .. }) | (Type::Set(f), PDef::Message { fields, .. }) => self.structure(&path, f, fields, bytes).map(Some),
            (Type::Choice { alts, .. }, PDef::Message { fields, .. }) => self.choice(&path, alts, fields, bytes).map(Some),
            (Type::Enumerated { .. }, PDef::Message { .. }) => v("declared-type-kind", format!("{path}: an ENUMERATED is declared as message")),
            (other, PDef::Message { fields, .. }) => self.wrapper_body(&path, other, fields, bytes).map(Some),
        }
    }
}

pub fn decode_under_schema(m: &Module, d: &Def, s: &Schema, bytes: &[u8]) -> Result<Option<Value>, Fail> {
    Dec { m, s }.def(d, bytes)
}

pub fn check_value(zoo: &Zoo, schemas: &BTreeMap<String, Schema>, ei: usize, val: &Value) -> Result<(&'static str, usize), Fail> {
    let e = &zoo.entries[ei];
    let id = e.id();
    let Some(schema) = schemas.get(&e.module.name) else {
        return Ok(("no-schema", 0));
    };
    let built = match e.build(val) {
        Ok(b) => b,
        Err(_) => return Ok(("unbuildable", 0)),
    };
    let bytes = match catch(|| e.entry.ty.proto_write(&*built)) {
        // (writer failures are C17's subject)
        Err(_) | Ok(Err(_)) => return Ok(("writer-refuses", 0)),
        Ok(Ok(b)) => b,
    };
    let got = match catch(|| decode_under_schema(&e.module, &e.def, schema, &bytes)) {
        Err(p) => return Err(("harness:decoder-panic".into(), format!("{id}: {p}"))),
        Ok(Err((key, msg))) => return Err((key, format!("{id}: {msg}; value {} bytes {}", val.brief(), hex(&bytes)))),
        Ok(Ok(None)) => return Ok(("top-level-enum-is-no-message", 0)),
        Ok(Ok(Some(g))) => g,
    };
    let a = def_pnorm(&e.module, &e.def, val);
    let b = def_pnorm(&e.module, &e.def, &got);
    if a != b {
        return Err(("value-differs".into(), format!("{id}: wrote {} but the bytes {} mean {} under the .proto schema", val.brief(), hex(&bytes), got.brief())));
    }
    Ok(("decoded-equal", bytes.len()))
}

const RULE: &str = "programs: every module of the compiled zoo (feature protobuf), its .proto text generated through Model::to_rust().to_protobuf() + ProtobufDefGenerator and parsed by the harness's own proto3 parser; inputs: schema-directed boundary-biased values of every message type (proptest). Oracle: an independent wire decoder that takes field numbers, scalar types, repeated-ness, oneof membership, enum numbers and message nesting from the parsed .proto only (component i <-> i-th declared field) decodes ProtobufWriter's bytes; every field number on the wire must be declared, every wire type must be the one of the declared type, integers must fit the declared width, exactly one oneof member is on the wire, and the decoded abstract value equals the written one after pnorm (proto3: an absent field is the type's default; a present optional equal to that default == absent). Non-trivial: the value has a nested message / list / choice; distinct = (type, value).";

pub fn run(ctx: Ctx) -> i32 {
    let report = Report::new(ctx.clone(), RULE);
    report.assumption("BIT STRING values travel as `bytes` = octets followed by the bit count in 8 big-endian bytes (asn1rs convention, proto_write.rs); top-level ENUMERATED types have no message and are skipped");
    let zoo = load_zoo();
    // .proto per module
    let mut schemas: BTreeMap<String, Schema> = BTreeMap::new();
    let mut seen = std::collections::BTreeSet::new();
    for e in &zoo.entries {
        if !seen.insert(e.module.name.clone()) {
            continue;
        }
        match proto_text(&e.text()).and_then(Schema::new) {
            Ok(s) => {
                schemas.insert(e.module.name.clone(), s);
            }
            Err(err) => {
                // (invalid .proto text is part a's subject; here the module cannot be examined)
                report.class(&format!("module-without-usable-proto:{}", err.chars().take(40).collect::<String>()), 1);
            }
        }
    }
    if schemas.is_empty() {
        report.infra("no module of the zoo gave a parseable .proto file");
        return report.finish();
    }
    report.extra("modules_with_schema", json!(schemas.len()));
    let replay = |c: &J| -> Result<(), Fail> {
        if c["part"].as_str() != Some("b") {
            return Ok(());
        }
        let ei = crate::uper::find_entry(&zoo, c["module"].as_str().unwrap_or(""), c["type"].as_str().unwrap_or("")).ok_or_else(|| ("harness:replay".to_string(), "type not in the compiled zoo".to_string()))?;
        let val: Value = serde_json::from_value(c["value"].clone()).map_err(|e| ("harness:replay".to_string(), e.to_string()))?;
        check_value(&zoo, &schemas, ei, &val).map(|_| ())
    };
    if let Some(path) = &ctx.replay {
        let j = read_replay(path);
        if j["case"]["part"].as_str() != Some("b") {
            return report.finish();
        }
        report.eval(1);
        match replay(&j["case"]) {
            Ok(()) => println!("replay: case passes"),
            Err((key, msg)) => {
                report.fail(&key, &msg, j["case"].clone());
            }
        }
        return report.finish();
    }
    report.run_probes(&replay);
    let tier = ctx.tier;
    let n_entries = zoo.entries.len();
    let per_entry = tier.pick(200u32, 1500u32);
    let exclude_nested = report.known.is_open("C18", "protobuf-nested-lists");
    let exclude_list_in_choice = report.known.is_open("C18", "protobuf-list-in-choice");
    let bad = run_in_workers(&report, 16, std::time::Duration::from_secs(tier.pick(900, 10800)), &|report: &Report| {
        let cfg = ValueCfg { big_weight: 0, max_big: 300, max_big_elems: 300, conformance: false, out_of_root: true, cap_open_types: false, hard_limit: None, foreign_chars: false };
        report.ctx.my_shards(n_entries as u64).par_iter().for_each(|&k| {
            if report.too_many_violations() {
                return;
            }
            let ei = k as usize;
            let e = &zoo.entries[ei];
            let mut local = Local::default();
            if exclude_nested && has_nested_list(&e.module, &e.def.ty, false, 0) {
                local.class("excluded-by-known-findings:nested-lists");
                report.merge_local(&mut local);
                return;
            }
            if exclude_list_in_choice && has_list_in_choice(&e.module, &e.def.ty, 0) {
                local.class("excluded-by-known-findings:list-in-choice");
                report.merge_local(&mut local);
                return;
            }
            let strat = gen::def_value_strategy(&e.module, &e.def, cfg);
            let mut runner = report.ctx.runner("c18", ei as u64, per_entry);
            let failed = std::cell::Cell::new(false);
            let cell = std::cell::RefCell::new(&mut local);
            let result = runner.run(&strat, |val| {
                let res = check_value(&zoo, &schemas, ei, &val);
                if !failed.get() {
                    let mut l = cell.borrow_mut();
                    l.eval();
                    if let Ok((what, len)) = &res {
                        l.class(what);
                        if *what == "decoded-equal" {
                            let sh = shape_of(&val);
                            if sh.depth >= 1 || sh.has_choice {
                                l.nontrivial(hash_of(&(ei, &val)));
                            }
                            if l.samples.len() < 1 && *len > 4 && *len < 60 {
                                l.sample(json!({"type": e.id(), "asn1": vcore::print::type_text(&e.def.ty), "value": val.brief(), "bytes": *len}));
                            }
                        }
                    }
                }
                res.map(|_| ()).map_err(|(key, msg)| {
                    failed.set(true);
                    TestCaseError::fail(format!("{key}\u{1}{msg}"))
                })
            });
            if let Err(proptest::test_runner::TestError::Fail(reason, val)) = result {
                let r = reason.message().to_string();
                let (key, msg) = r.split_once('\u{1}').unwrap_or(("unknown", &r));
                let proto = schemas.get(&e.module.name).map(|s| s.text.clone()).unwrap_or_default();
                report.fail(&format!("b:{key}"), msg, json!({"part": "b", "module_text": e.text(), "proto": proto, "module": e.module.name, "type": e.def.name, "asn1": vcore::print::type_text(&e.def.ty), "value_brief": val.brief(), "value": serde_json::to_value(&val).unwrap()}));
            }
            report.merge_local(&mut local);
        });
    });
    dead_workers_are_infra(&report, &bad);
    report.extra("zoo_types", json!(n_entries));
    if report.class_count("decoded-equal") == 0 && report.violation_count() == 0 {
        report.infra("no value was decoded");
    }
    report.finish()
}
