//! C08 part b — the descriptor constants of the *compiled* zoo types (what `Describe` is shown at
//! run time: MIN / MAX / EXTENSIBLE, STD_OPTIONAL_FIELDS / FIELD_COUNT / EXTENDED_AFTER_FIELD,
//! VARIANT_COUNT / STD_VARIANT_COUNT, integer width, visiting order) match the source ASN.1
//! constraints of the abstract schema the text was printed from.

use crate::common::*;
use rayon::prelude::*;
use serde_json::{json, Value as J};
use vcore::gen::rust_int_bounds;
use vcore::harness::*;
use vcore::refcodec::comp_order;
use vcore::schema::*;

type Fail = (String, String);

fn size_json(kind: &str, size: &Option<Size>) -> J {
    match size {
        None => json!({"k": kind, "min": null, "max": null, "ext": false}),
        Some(s) => json!({"k": kind, "min": s.lb() as u64, "max": s.ub().map(|u| u as u64), "ext": s.ext}),
    }
}

fn int_type_name(lb: Option<i128>, ub: Option<i128>, ext: bool) -> &'static str {
    let (lo, hi) = rust_int_bounds(lb, ub, ext);
    match (lo, hi) {
        (0, h) if h == u8::MAX as i128 => "u8",
        (0, h) if h == u16::MAX as i128 => "u16",
        (0, h) if h == u32::MAX as i128 => "u32",
        (0, _) => "u64",
        (l, _) if l == i8::MIN as i128 => "i8",
        (l, _) if l == i16::MIN as i128 => "i16",
        (l, _) if l == i32::MIN as i128 => "i32",
        _ => "i64",
    }
}

fn expected_type(m: &Module, ty: &Type, out: &mut Vec<J>) {
    match ty {
        Type::Ref(n) => expected_def(m, m.def(n).expect("reference"), out),
        Type::Boolean => out.push(json!({"k": "boolean"})),
        Type::Null => out.push(json!({"k": "null"})),
        Type::Integer { range, .. } => {
            let (lb, ub, ext) = match range {
                None => (None, None, false),
                Some(r) => (r.lb.as_ref().map(|n| n.value), r.ub.as_ref().map(|n| n.value), r.ext),
            };
            // documented normalisations: (0..MAX) / (MIN..i64::MAX) are unconstrained
            let whole = matches!((lb, ub), (None, None) | (Some(0), None)) || (lb.is_none() && ub == Some(i64::MAX as i128));
            let (min, max) = if whole { (None, None) } else { (lb, ub) };
            out.push(json!({"k": "integer", "ty": int_type_name(lb, ub, ext), "min": min.map(|v| v as i64), "max": max.map(|v| v as i64), "ext": ext, "min_to_ub": lb.is_none() && ub.is_some() && !whole && !ext}));
        }
        Type::Enumerated { items, root } => out.push(json!({"k": "enumerated", "variants": items.len(), "std": root.unwrap_or(items.len()), "ext": root.is_some()})),
        Type::BitString { size, .. } => out.push(size_json("bitstring", size)),
        Type::OctetString { size } => out.push(size_json("octetstring", size)),
        Type::Str { cs, size } => out.push(size_json(
            match cs {
                Charset::Utf8 => "utf8string",
                Charset::Ia5 => "ia5string",
                Charset::Numeric => "numericstring",
                Charset::Printable => "printablestring",
                Charset::Visible => "visiblestring",
            },
            size,
        )),
        Type::Sequence(f) | Type::Set(f) => {
            let is_set = matches!(ty, Type::Set(_));
            let n_root = f.root.unwrap_or(f.comps.len());
            let opt = f.comps[..n_root].iter().filter(|c| c.presence != Presence::Mandatory).count();
            out.push(json!({"k": if is_set { "set" } else { "sequence" }, "opt": opt, "fields": f.comps.len(), "ext_after": f.root.map(|r| r as i64 - 1)}));
            for i in comp_order(m, f, is_set).expect("order") {
                let c = &f.comps[i];
                match &c.presence {
                    Presence::Default(_) => out.push(json!({"k": "default"})),
                    Presence::Optional => out.push(json!({"k": "optional"})),
                    // asn1rs represents a mandatory extension addition as Option
                    Presence::Mandatory if i >= n_root => out.push(json!({"k": "optional"})),
                    Presence::Mandatory => {}
                }
                expected_type(m, &c.ty, out);
            }
            out.push(json!({"k": "end"}));
        }
        Type::SequenceOf { elem, size } | Type::SetOf { elem, size } => {
            out.push(size_json(if matches!(ty, Type::SetOf { .. }) { "set_of" } else { "sequence_of" }, size));
            expected_type(m, elem, out);
            out.push(json!({"k": "end"}));
        }
        Type::Choice { alts, root } => {
            out.push(json!({"k": "choice", "variants": alts.len(), "std": root.unwrap_or(alts.len()), "ext": root.is_some()}));
            for (i, a) in alts.iter().enumerate() {
                out.push(json!({"k": "alt", "i": i}));
                expected_type(m, &a.ty, out);
            }
            out.push(json!({"k": "end"}));
        }
    }
}

fn expected_def(m: &Module, d: &Def, out: &mut Vec<J>) {
    if d.ty.is_own_rust_type() {
        expected_type(m, &d.ty, out);
    } else {
        // transparent wrapper: a one-field sequence
        out.push(json!({"k": "sequence", "opt": 0, "fields": 1, "ext_after": null}));
        expected_type(m, &d.ty, out);
        out.push(json!({"k": "end"}));
    }
}

fn same_bound(a: &J, b: &J) -> bool {
    // None == i64::MAX (documented: MAX is i64::MAX)
    let norm = |x: &J| -> Option<i128> {
        match x {
            J::Null => None,
            v => v.as_i64().map(|i| i as i128).or_else(|| v.as_u64().map(|u| u as i128)).filter(|v| *v != i64::MAX as i128),
        }
    };
    norm(a) == norm(b)
}

pub fn check_entry(e: &ZooEntry) -> Result<usize, Fail> {
    let got = catch(|| e.entry.ty.describe()).map_err(|p| ("b:describe-panic".to_string(), format!("{}: walking the type panicked: {p}", e.id())))?;
    let mut want = Vec::new();
    expected_def(&e.module, &e.def, &mut want);
    let id = e.id();
    let asn = vcore::print::type_text(&e.def.ty);
    for (i, w) in want.iter().enumerate() {
        let Some(g) = got.get(i) else {
            return Err(("b:describe-shorter".into(), format!("{id}: the compiled type shows {} items, the schema has {} — {asn}", got.len(), want.len())));
        };
        let k = w["k"].as_str().unwrap_or("");
        if g["k"] != w["k"] {
            return Err((format!("b:kind:{k}"), format!("{id}: item {i}: the compiled type shows {} where the schema has {k} — {asn}", g["k"])));
        }
        let mut bad: Option<String> = None;
        for key in ["opt", "fields", "ext_after", "variants", "std", "ext"] {
            if !w[key].is_null() || key == "ext_after" && (k == "sequence" || k == "set") {
                if g[key] != w[key] {
                    bad = Some(key.to_string());
                }
            }
        }
        if w.get("min").is_some() {
            let skip_min = w["min_to_ub"].as_bool() == Some(true); // open known finding C15 min-to-ub-unsigned
            if !skip_min && !same_bound(&g["min"], &w["min"]) {
                // unsigned types show a missing lower bound as 0, signed ones as i64::MIN
                if !(w["min"].is_null() && (g["min"].as_i64() == Some(0) || g["min"].as_i64() == Some(i64::MIN))) {
                    bad = Some("min".into());
                }
            }
            if !same_bound(&g["max"], &w["max"]) {
                bad = Some("max".into());
            }
        }
        if k == "integer" && w["min_to_ub"].as_bool() != Some(true) && g["ty"] != w["ty"] {
            bad = Some("ty".into());
        }
        if let Some(key) = bad {
            return Err((format!("b:constant:{k}:{key}"), format!("{id}: item {i} ({k}): compiled constants {} but the schema gives {} — {asn}", g, w)));
        }
    }
    if got.len() != want.len() {
        return Err(("b:describe-longer".into(), format!("{id}: the compiled type shows {} items, the schema has {}", got.len(), want.len())));
    }
    Ok(want.len())
}

const RULE: &str = "part b (compiled): every definition of the compiled zoo is walked once with a recording Reader (Describe): the constants the generated code shows to a back end - kind, MIN / MAX / EXTENSIBLE, STD_OPTIONAL_FIELDS / FIELD_COUNT / EXTENDED_AFTER_FIELD, VARIANT_COUNT / STD_VARIANT_COUNT, integer width, OPTIONAL / DEFAULT wrapping, visiting order - are compared item by item with the abstract schema the ASN.1 text was printed from. Non-trivial: the type has >= 1 constraint, OPTIONAL/DEFAULT or extension marker; distinct = type id.";

pub fn run(ctx: Ctx) -> i32 {
    let report = Report::new(ctx.clone(), RULE);
    report.assumption("tags are not compared here (TAG reaches a visitor only for some descriptors): they are C16 part a's subject; MAX == i64::MAX; (MIN..ub) lower bounds fall under the open C15 finding");
    let zoo = load_zoo();
    if let Some(path) = &ctx.replay {
        let j = read_replay(path);
        let c = &j["case"];
        if c["part"].as_str() != Some("b") {
            return 0;
        }
        report.eval(1);
        match crate::uper::find_entry(&zoo, c["module"].as_str().unwrap_or(""), c["type"].as_str().unwrap_or("")) {
            None => {
                eprintln!("type not in the compiled zoo");
                return 2;
            }
            Some(ei) => match check_entry(&zoo.entries[ei]) {
                Ok(_) => println!("replay: case passes"),
                Err((key, msg)) => {
                    report.fail(&key, &msg, c.clone());
                }
            },
        }
        return report.finish();
    }
    let results: Vec<(usize, Result<usize, Fail>)> = zoo.entries.par_iter().enumerate().map(|(i, e)| (i, check_entry(e))).collect();
    for (i, r) in results {
        let e = &zoo.entries[i];
        report.eval(1);
        match r {
            Ok(n) => {
                if n > 1 {
                    report.nontrivial(hash_of(&e.id()));
                }
                report.class(&format!("b:{}", e.group), 1);
                if i % 400 == 7 {
                    report.sample(json!({"part": "b", "type": e.id(), "asn1": vcore::print::type_text(&e.def.ty), "described": e.entry.ty.describe()}));
                }
            }
            Err((key, msg)) => {
                report.fail(&key, &msg, json!({"part": "b", "module_text": e.text(), "module": e.module.name, "type": e.def.name}));
            }
        }
    }
    report.extra("zoo_types", json!(zoo.entries.len()));
    report.finish()
}
