//! Shared by the run-time checks: the loaded zoo and single-message helpers.
use asn1rs::prelude::{UperReader, UperWriter};
use asn1rs::protocol::per::ErrorKind;
use std::sync::Arc;
use vcore::gen;
use vcore::harness::catch;
use vcore::schema::*;
use vcore::zoo::ZooModule;
use zoort::{AnyVal, Entry};

pub struct ZooEntry {
    pub entry: Entry,
    pub module: Arc<Module>,
    pub def: Def,
    pub conformance: bool,
    pub group: String,
}

pub struct Zoo {
    pub zmods: Vec<ZooModule>,
    pub entries: Vec<ZooEntry>,
}

pub fn load_zoo() -> Zoo {
    let zmods = zoo::schemas();
    let mods: Vec<Arc<Module>> = zmods.iter().map(|z| Arc::new(z.module.clone())).collect();
    let entries = zoo::registry()
        .into_iter()
        .map(|e| {
            let module = mods[e.module].clone();
            let def = module.def(e.name).expect("registered definition exists in its module").clone();
            let zm = &zmods[e.module];
            ZooEntry { module, def, conformance: zm.conformance, group: zm.group.clone(), entry: e }
        })
        .collect();
    Zoo { zmods, entries }
}

impl ZooEntry {
    pub fn id(&self) -> String {
        format!("{}.{}", self.module.name, self.def.name)
    }
    pub fn text(&self) -> String {
        vcore::print::module_text(&self.module)
    }
    /// abstract value (textual order) -> value of the generated type
    pub fn build(&self, v: &Value) -> Result<AnyVal, String> {
        let visit = gen::def_to_visit_order(&self.module, &self.def, v, true);
        match catch(|| self.entry.ty.build(&visit)) {
            Ok(r) => r,
            Err(p) => Err(format!("bridge panicked: {p}")),
        }
    }
    /// value of the generated type -> abstract value (textual order)
    pub fn extract(&self, t: &dyn std::any::Any) -> Result<Value, String> {
        let visit = self.entry.ty.extract(t)?;
        Ok(gen::def_to_visit_order(&self.module, &self.def, &visit, false))
    }
}

#[allow(unreachable_patterns)]
pub fn kind_name(k: &ErrorKind) -> &'static str {
    match k {
        ErrorKind::FromUtf8Error(_) => "FromUtf8Error",
        ErrorKind::InvalidString(..) => "InvalidString",
        ErrorKind::UnsupportedOperation(_) => "UnsupportedOperation",
        ErrorKind::InsufficientSpaceInDestinationBuffer(_) => "InsufficientSpaceInDestinationBuffer",
        ErrorKind::InsufficientDataInSourceBuffer(_) => "InsufficientDataInSourceBuffer",
        ErrorKind::LengthDeterminantExceedsLimit { .. } => "LengthDeterminantExceedsLimit",
        ErrorKind::InvalidChoiceIndex(..) => "InvalidChoiceIndex",
        ErrorKind::ExtensionFieldsInconsistent(_) => "ExtensionFieldsInconsistent",
        ErrorKind::ValueNotInRange(..) => "ValueNotInRange",
        ErrorKind::ValueExceedsMaxInt => "ValueExceedsMaxInt",
        ErrorKind::ValueIsNegativeButExpectedUnsigned(_) => "ValueIsNegativeButExpectedUnsigned",
        ErrorKind::SizeNotInRange(..) => "SizeNotInRange",
        ErrorKind::BitLenNotInRange(..) => "BitLenNotInRange",
        ErrorKind::OptFlagsExhausted => "OptFlagsExhausted",
        ErrorKind::EndOfStream => "EndOfStream",
        _ => "Other",
    }
}

pub enum Enc {
    Ok { bytes: Vec<u8>, bit_len: usize },
    Err(&'static str),
    Panic(String),
}

/// one value on a fresh writer
pub fn encode(e: &ZooEntry, t: &dyn std::any::Any) -> Enc {
    let mut w = UperWriter::default();
    match catch(|| e.entry.ty.uper_write(&mut w, t)) {
        Err(p) => Enc::Panic(p),
        Ok(Err(err)) => Enc::Err(kind_name(err.kind())),
        Ok(Ok(())) => Enc::Ok { bytes: w.byte_content().to_vec(), bit_len: w.bit_len() },
    }
}

pub enum Dec {
    /// value, bits consumed
    Ok(AnyVal, usize),
    Err(&'static str),
    Panic(String),
}

pub fn decode(e: &ZooEntry, bytes: &[u8], bit_len: usize) -> Dec {
    use asn1rs::rw::ScopedBitRead;
    let mut r = UperReader::from((bytes, bit_len));
    match catch(|| e.entry.ty.uper_read(&mut r)) {
        Err(p) => Dec::Panic(p),
        Ok(Err(err)) => Dec::Err(kind_name(err.kind())),
        Ok(Ok(v)) => Dec::Ok(v, r.into_bits().pos()),
    }
}

/// strips the source location prefix of a panic message: "panicked at file:line:col:\nmsg" -> (file:line, msg)
pub fn panic_site(p: &str) -> (String, String) {
    let p = p.trim();
    if let Some(rest) = p.strip_prefix("panicked at ") {
        let (loc, msg) = rest.split_once('\n').unwrap_or((rest, ""));
        let loc = loc.trim_end_matches(':');
        // file:line:col -> file:line
        let mut parts: Vec<&str> = loc.rsplitn(2, ':').collect();
        parts.reverse();
        let file_line = parts.first().copied().unwrap_or(loc);
        let short = file_line.rsplit('/').next().unwrap_or(file_line);
        return (short.to_string(), msg.trim().to_string());
    }
    ("?".into(), p.to_string())
}

/// A panic message without its location and with digits blanked: stable across refactors, used in
/// violation keys (never file:line — DESIGN.md section 6).
pub fn panic_class(p: &str) -> String {
    let (_, msg) = panic_site(p);
    let msg: String = msg.chars().take(60).map(|c| if c.is_ascii_digit() { '#' } else { c }).collect();
    let mut out = String::new();
    let mut last_hash = false;
    for c in msg.chars() {
        if c == '#' {
            if !last_hash {
                out.push('#');
            }
            last_hash = true;
        } else {
            last_hash = false;
            out.push(if c.is_whitespace() { '_' } else { c });
        }
    }
    out
}

// ---------------------------------------------------------------------------------------------
// value classification (class histogram of the evidence)

#[derive(Default, Debug, Clone)]
pub struct Shape {
    pub max_len: usize,
    pub depth: usize,
    pub has_choice: bool,
    pub has_optional_decision: bool,
    pub has_list_or_string: bool,
    pub absent: usize,
}

pub fn shape_of(v: &Value) -> Shape {
    let mut s = Shape::default();
    fn walk(v: &Value, d: usize, s: &mut Shape) {
        s.depth = s.depth.max(d);
        match v {
            Value::Bits(b) => {
                s.max_len = s.max_len.max(b.len());
                s.has_list_or_string |= !b.is_empty();
            }
            Value::Bytes(b) => {
                s.max_len = s.max_len.max(b.len());
                s.has_list_or_string |= !b.is_empty();
            }
            Value::Str(st) => {
                let n = st.chars().count();
                s.max_len = s.max_len.max(n);
                s.has_list_or_string |= n > 0;
            }
            Value::List(l) => {
                s.max_len = s.max_len.max(l.len());
                s.has_list_or_string |= !l.is_empty();
                for x in l.iter().take(64) {
                    walk(x, d + 1, s);
                }
            }
            Value::Seq(slots) => {
                for sl in slots {
                    match sl {
                        None => {
                            s.absent += 1;
                            s.has_optional_decision = true;
                        }
                        Some(x) => walk(x, d + 1, s),
                    }
                }
            }
            Value::Choice(_, x) => {
                s.has_choice = true;
                walk(x, d + 1, s);
            }
            _ => {}
        }
    }
    walk(v, 0, &mut s);
    s
}
