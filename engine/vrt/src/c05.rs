//! C05 — extension additions are forward/backward compatible across schema versions.

use crate::common::*;
use asn1rs::descriptor::{common as dcommon, numbers, Reader as _, Writer as _};
use asn1rs::model::asn::Tag as ATag;
use asn1rs::prelude::{UperReader, UperWriter};
use proptest::prelude::*;
use rayon::prelude::*;
use serde_json::{json, Value as J};
use vcore::bitmodel::bits_of;
use vcore::gen;
use vcore::harness::*;
use vcore::refcodec;
use vcore::schema::*;

type Fail = (String, String);

struct SentinelC;
impl dcommon::Constraint for SentinelC {
    const TAG: ATag = ATag::DEFAULT_INTEGER;
}
impl numbers::Constraint<u8> for SentinelC {
    const MIN: Option<i64> = Some(0);
    const MAX: Option<i64> = Some(255);
}
type BoolC = asn1rs::descriptor::boolean::NoConstraint;

struct Unknown;

/// the value as the *other* (older) version can represent it; Err: it contains a CHOICE
/// alternative / ENUMERATED item the older version does not know
fn project(m2: &Module, t2: &Type, m1: &Module, t1: &Type, v: &Value) -> Result<Value, Unknown> {
    match (t2, t1, v) {
        (Type::Ref(n2), Type::Ref(n1), v) => {
            let (d2, d1) = (m2.def(n2).unwrap(), m1.def(n1).unwrap());
            if d2.ty.is_own_rust_type() {
                project(m2, &d2.ty, m1, &d1.ty, v)
            } else if let Value::Seq(s) = v {
                Ok(Value::wrap(project(m2, &d2.ty, m1, &d1.ty, s[0].as_ref().unwrap())?))
            } else {
                Ok(v.clone())
            }
        }
        (Type::Sequence(f2), Type::Sequence(f1), Value::Seq(slots)) | (Type::Set(f2), Type::Set(f1), Value::Seq(slots)) => {
            let mut out = Vec::new();
            for (i, c1) in f1.comps.iter().enumerate() {
                out.push(match &slots[i] {
                    None => None,
                    Some(x) => Some(project(m2, &f2.comps[i].ty, m1, &c1.ty, x)?),
                });
            }
            Ok(Value::Seq(out))
        }
        (Type::Choice { alts: a2, .. }, Type::Choice { alts: a1, .. }, Value::Choice(i, x)) => {
            if *i >= a1.len() {
                return Err(Unknown);
            }
            Ok(Value::Choice(*i, Box::new(project(m2, &a2[*i].ty, m1, &a1[*i].ty, x)?)))
        }
        (Type::Enumerated { .. }, Type::Enumerated { items: i1, .. }, Value::Enum(i)) => {
            if *i >= i1.len() {
                return Err(Unknown);
            }
            Ok(v.clone())
        }
        (Type::SequenceOf { elem: e2, .. }, Type::SequenceOf { elem: e1, .. }, Value::List(l)) | (Type::SetOf { elem: e2, .. }, Type::SetOf { elem: e1, .. }, Value::List(l)) => Ok(Value::List(l.iter().map(|x| project(m2, e2, m1, e1, x)).collect::<Result<_, _>>()?)),
        (_, _, v) => Ok(v.clone()),
    }
}

/// a V1 value as V2 must decode it: new additions absent (DEFAULT: the default value)
fn lift(m1: &Module, t1: &Type, m2: &Module, t2: &Type, v: &Value) -> Value {
    match (t1, t2, v) {
        (Type::Ref(n1), Type::Ref(n2), v) => {
            let (d1, d2) = (m1.def(n1).unwrap(), m2.def(n2).unwrap());
            if d1.ty.is_own_rust_type() {
                lift(m1, &d1.ty, m2, &d2.ty, v)
            } else if let Value::Seq(s) = v {
                Value::wrap(lift(m1, &d1.ty, m2, &d2.ty, s[0].as_ref().unwrap()))
            } else {
                v.clone()
            }
        }
        (Type::Sequence(f1), Type::Sequence(f2), Value::Seq(slots)) | (Type::Set(f1), Type::Set(f2), Value::Seq(slots)) => {
            let mut out = Vec::new();
            for (i, c2) in f2.comps.iter().enumerate() {
                if i < f1.comps.len() {
                    out.push(slots[i].as_ref().map(|x| lift(m1, &f1.comps[i].ty, m2, &c2.ty, x)));
                } else {
                    out.push(match &c2.presence {
                        Presence::Default(d) => Some(refcodec::lit_value(m2, &c2.ty, &d.lit).expect("default")),
                        _ => None,
                    });
                }
            }
            Value::Seq(out)
        }
        (Type::Choice { alts: a1, .. }, Type::Choice { alts: a2, .. }, Value::Choice(i, x)) => Value::Choice(*i, Box::new(lift(m1, &a1[*i].ty, m2, &a2[*i].ty, x))),
        (Type::SequenceOf { elem: e1, .. }, Type::SequenceOf { elem: e2, .. }, Value::List(l)) | (Type::SetOf { elem: e1, .. }, Type::SetOf { elem: e2, .. }, Value::List(l)) => Value::List(l.iter().map(|x| lift(m1, e1, m2, e2, x)).collect()),
        (_, _, v) => v.clone(),
    }
}

/// does the value carry an addition the other side does not know / know additions the writer lacks
fn crosses_versions(m_w: &Module, t_w: &Type, m_r: &Module, t_r: &Type, v: &Value) -> bool {
    match (t_w, t_r, v) {
        (Type::Ref(a), Type::Ref(b), v) => {
            let (da, db) = (m_w.def(a).unwrap(), m_r.def(b).unwrap());
            let inner = if da.ty.is_own_rust_type() { v } else if let Value::Seq(s) = v { s[0].as_ref().unwrap() } else { v };
            crosses_versions(m_w, &da.ty, m_r, &db.ty, inner)
        }
        (Type::Sequence(fw), Type::Sequence(fr), Value::Seq(slots)) | (Type::Set(fw), Type::Set(fr), Value::Seq(slots)) => {
            if fw.comps.len() > fr.comps.len() {
                // writer knows more: some unknown addition present?
                if slots[fr.comps.len()..].iter().zip(&fw.comps[fr.comps.len()..]).any(|(s, c)| match (&c.presence, s) {
                    (_, None) => false,
                    (Presence::Default(d), Some(x)) => &refcodec::lit_value(m_w, &c.ty, &d.lit).unwrap() != x,
                    _ => true,
                }) {
                    return true;
                }
            }
            if fr.comps.len() > fw.comps.len() {
                // reader knows more additions than are sent: interesting when the extension is present at all
                let n_root = fw.root.unwrap_or(fw.comps.len());
                if slots[n_root..].iter().any(|s| s.is_some()) {
                    return true;
                }
            }
            fw.comps.iter().zip(&fr.comps).zip(slots).any(|((cw, cr), s)| s.as_ref().map(|x| crosses_versions(m_w, &cw.ty, m_r, &cr.ty, x)).unwrap_or(false))
        }
        (Type::Choice { alts: aw, .. }, Type::Choice { alts: ar, .. }, Value::Choice(i, x)) => *i >= ar.len() || crosses_versions(m_w, &aw[*i].ty, m_r, &ar[*i].ty, x),
        (Type::Enumerated { .. }, Type::Enumerated { items: ir, .. }, Value::Enum(i)) => *i >= ir.len(),
        (Type::SequenceOf { elem: ew, .. }, Type::SequenceOf { elem: er, .. }, Value::List(l)) => l.iter().any(|x| crosses_versions(m_w, ew, m_r, er, x)),
        _ => false,
    }
}

/// writes `v` with the entry `w_e`, a sentinel behind it, and reads both back with the entry `r_e`
pub fn check_cross(zoo: &Zoo, w_e: usize, r_e: usize, v: &Value) -> Result<&'static str, Fail> {
    let we = &zoo.entries[w_e];
    let re = &zoo.entries[r_e];
    let id = format!("{} -> {}", we.id(), re.id());
    let newer_writes = we.module.name.ends_with("V2");
    let dir = if newer_writes { "V2->V1" } else { "V1->V2" };
    let built = we.build(v).map_err(|x| ("harness:build".to_string(), format!("{id}: {x}")))?;
    let mut w = UperWriter::default();
    match catch(|| we.entry.ty.uper_write(&mut w, &*built)) {
        Err(p) => return Err((format!("encode-panic:{}", panic_class(&p)), format!("{id}: the writer panicked: {p}"))),
        Ok(Err(e)) => {
            return if kind_name(e.kind()) == "ExtensionFieldsInconsistent" { Ok("refused") } else { Err((format!("encode-error:{}", kind_name(e.kind())), format!("{id}: the writer refused {}", v.brief()))) };
        }
        Ok(Ok(())) => {}
    }
    let msg_bits = w.bit_len();
    // the writer's bits are what X.691 prescribes (so "both sides wrong in the same way" does not pass)
    if let Ok(s) = refcodec::encode_def(&we.module, &we.def, v) {
        let got: Vec<bool> = bits_of(w.byte_content()).into_iter().take(msg_bits).collect();
        if got != s.bits {
            return Err((format!("{dir}:writer-bits-differ-from-x691"), format!("{id}: the written message is not the X.691 encoding of {}", v.brief())));
        }
    }
    w.write_number::<u8, SentinelC>(0xA5).and_then(|_| w.write_boolean::<BoolC>(true)).map_err(|_| ("harness:sentinel".to_string(), "cannot write the sentinel".to_string()))?;
    let bytes = w.byte_content().to_vec();
    let total = w.bit_len();
    let expected: Option<Value> = if newer_writes { project(&we.module, &we.def.ty, &re.module, &re.def.ty, v).ok() } else { Some(lift(&we.module, &we.def.ty, &re.module, &re.def.ty, v)) };
    let mut r = UperReader::from((&bytes[..], total));
    let res = catch(|| re.entry.ty.uper_read(&mut r));
    let val = match res {
        Err(p) => return Err((format!("{dir}:decode-panic:{}", panic_class(&p)), format!("{id}: the reader panicked on {}: {p}", v.brief()))),
        Ok(Err(e)) => {
            return match expected {
                // "unknown CHOICE/ENUMERATED extension values may be reported as an error"
                None => Ok("unknown-value-reported-as-error"),
                Some(_) => Err((format!("{dir}:decode-error:{}", kind_name(e.kind())), format!("{id}: the other version fails to decode {} ({})", v.brief(), kind_name(e.kind())))),
            };
        }
        Ok(Ok(val)) => val,
    };
    let back = re.extract(&*val).map_err(|x| ("harness:extract".to_string(), x))?;
    match &expected {
        None => return Err((format!("{dir}:unknown-value-decoded"), format!("{id}: a value with a CHOICE alternative / ENUMERATED item unknown to the reader decoded to {} (wrote {})", back.brief(), v.brief()))),
        Some(exp) => {
            if &back != exp {
                return Err((format!("{dir}:content"), format!("{id}: wrote {} expected {} but read {}", v.brief(), exp.brief(), back.brief())));
            }
        }
    }
    // "the reader ends exactly at the end of the message, so data following it decodes correctly"
    let consumed = total - catch(|| r.bits_remaining()).map_err(|p| (format!("{dir}:bits_remaining-panic"), format!("{id}: bits_remaining() panicked: {p}")))?;
    if consumed != msg_bits {
        return Err((format!("{dir}:end-position"), format!("{id}: the message has {msg_bits} bits, the reader of the other version stopped after {consumed} (value {})", v.brief())));
    }
    let s1 = catch(|| r.read_number::<u8, SentinelC>());
    let s2 = catch(|| r.read_boolean::<BoolC>());
    match (s1, s2) {
        (Ok(Ok(0xA5)), Ok(Ok(true))) => {}
        _ => return Err((format!("{dir}:sentinel"), format!("{id}: the data following the message does not decode"))),
    }
    let rem = catch(|| r.bits_remaining()).unwrap_or(usize::MAX);
    if rem != 0 {
        return Err((format!("{dir}:remaining"), format!("{id}: {rem} bits remain")));
    }
    Ok("decoded")
}

const RULE: &str = "programs: 64 compiled schema pairs (V1, V2 = V1 + k appended extension additions, k = 1..8; SEQUENCE / SET / CHOICE / ENUMERATED, and an untagged CHOICE inside a SET with explicit tags whose appended alternatives have smaller tags than all root alternatives; V1 already carrying 0..2 additions; addition encodings in the length classes 1..63, 64..127, 128..300 octets; the versioned type at top level, in a root component, in an extension addition of an outer type, as list element); inputs: values of either version (proptest), written by one version followed by a sentinel (INTEGER(0..255)=0xA5, BOOLEAN) into the same writer and read by the other version. Oracle: content equals the projection/lift computed on the abstract schemas, unknown additions skipped, unknown CHOICE/ENUMERATED values: Err accepted, Ok is a violation; reader stops exactly at the end of the message; sentinel decodes; writer bits == reference X.691. Non-trivial: an addition unknown to the reader is present, or the reader knows additions the writer lacks while the extension is present; distinct = (pair, direction, value).";

pub fn run(ctx: Ctx) -> i32 {
    let report = Report::new(ctx.clone(), RULE);
    let zoo = load_zoo();
    // pair -> (V1 Msg entry, V2 Msg entry)
    let mut pairs: Vec<(usize, usize)> = Vec::new();
    for (i, e) in zoo.entries.iter().enumerate() {
        if e.group == "c05" && e.def.name == "Msg" && e.module.name.ends_with("V1") {
            let other = format!("{}V2", e.module.name.trim_end_matches("V1"));
            if let Some(j) = zoo.entries.iter().position(|x| x.module.name == other && x.def.name == "Msg") {
                pairs.push((i, j));
            }
        }
    }
    let replay = |c: &J| -> Result<(), Fail> {
        let find = |m: &J, t: &J| crate::uper::find_entry(&zoo, m.as_str().unwrap_or(""), t.as_str().unwrap_or("")).ok_or_else(|| ("harness:replay".to_string(), "type not in the compiled zoo".to_string()));
        let w = find(&c["writer_module"], &c["type"])?;
        let r = find(&c["reader_module"], &c["type"])?;
        let v: Value = serde_json::from_value(c["value"].clone()).map_err(|e| ("harness:replay".to_string(), e.to_string()))?;
        check_cross(&zoo, w, r, &v).map(|_| ())
    };
    if let Some(path) = &ctx.replay {
        let j = read_replay(path);
        report.eval(1);
        match replay(&j["case"]) {
            Ok(()) => println!("replay: case passes"),
            Err((key, msg)) => {
                report.fail(&key, &msg, j["case"].clone());
            }
        }
        return report.finish();
    }
    report.run_probes(&replay);
    let tier = ctx.tier;
    let per_dir = tier.pick(1000u32, 4000u32);
    let bad = run_in_workers(&report, 16, std::time::Duration::from_secs(tier.pick(900, 7200)), &|report: &Report| {
        let cfg = crate::uper::value_cfg(report, true, tier);
        let jobs: Vec<(usize, usize)> = pairs.iter().flat_map(|(a, b)| [(*a, *b), (*b, *a)]).collect();
        report.ctx.my_shards(jobs.len() as u64).par_iter().for_each(|&k| {
            if report.too_many_violations() {
                return;
            }
            let (w_e, r_e) = jobs[k as usize];
            let we = &zoo.entries[w_e];
            let re = &zoo.entries[r_e];
            let strat = gen::def_value_strategy(&we.module, &we.def, cfg);
            let mut runner = report.ctx.runner("c05", k, per_dir);
            let mut local = Local::default();
            let failed = std::cell::Cell::new(false);
            let cell = std::cell::RefCell::new(&mut local);
            let dir = if we.module.name.ends_with("V2") { "V2->V1" } else { "V1->V2" };
            let result = runner.run(&strat, |v| {
                let res = check_cross(&zoo, w_e, r_e, &v);
                if !failed.get() {
                    let mut l = cell.borrow_mut();
                    l.eval();
                    if let Ok(what) = &res {
                        l.class(&format!("{dir}:{what}"));
                        if *what != "refused" && crosses_versions(&we.module, &we.def.ty, &re.module, &re.def.ty, &v) {
                            l.nontrivial(hash_of(&(w_e, r_e, &v)));
                            l.class(&format!("{dir}:crosses-versions"));
                            if l.samples.len() < 1 {
                                l.sample(json!({"writer": we.id(), "reader": re.id(), "writer_asn1": vcore::print::module_text(&we.module), "value": v.brief(), "outcome": what}));
                            }
                        }
                    }
                }
                res.map(|_| ()).map_err(|(key, msg)| {
                    failed.set(true);
                    TestCaseError::fail(format!("{key}\u{1}{msg}"))
                })
            });
            if let Err(proptest::test_runner::TestError::Fail(reason, v)) = result {
                let r = reason.message().to_string();
                let (key, msg) = r.split_once('\u{1}').unwrap_or(("unknown", &r));
                report.fail(key, msg, json!({"writer_module": we.module.name, "reader_module": re.module.name, "type": "Msg", "writer_text": we.text(), "reader_text": re.text(), "value_brief": v.brief(), "value": serde_json::to_value(&v).unwrap()}));
            }
            report.merge_local(&mut local);
        });
    });
    dead_workers_are_infra(&report, &bad);
    report.extra("pairs", json!(pairs.len()));
    for must in ["V2->V1:crosses-versions", "V1->V2:crosses-versions"] {
        if report.class_count(must) == 0 && report.violation_count() == 0 {
            report.infra(&format!("generator fault: class {must} never generated"));
        }
    }
    report.finish()
}
