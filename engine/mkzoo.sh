#!/bin/bash
# (re)generate the fixed zoo and build it; prints compile errors
export VERIF_DIR="$(cd "$(dirname "$0")/.." && pwd)"
export CARGO_NET_OFFLINE=true
. "$VERIF_DIR/engine/env.sh"
build_zoo || exit 1
cat "$TARGET_DIR/zoogen.log"
cd "$ENGINE" && cargo build --offline -p zoo 2>&1 | grep -E "^error" -A${1:-14} | head -${2:-150}
