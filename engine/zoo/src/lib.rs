//! Umbrella over the generated zoo crates z0..z7 (fixed zoo) and zs0..zs7 (seed-dependent part of the
//! thorough tier; empty otherwise). Sources written by zoogen.
use vcore::zoo::ZooModule;
use zoort::Entry;

pub fn schemas() -> Vec<ZooModule> {
    serde_json::from_str(include_str!("../schemas.json")).expect("schemas.json")
}

pub fn registry() -> Vec<Entry> {
    let mut v = Vec::new();
    z0::register(&mut v);
    z1::register(&mut v);
    z2::register(&mut v);
    z3::register(&mut v);
    z4::register(&mut v);
    z5::register(&mut v);
    z6::register(&mut v);
    z7::register(&mut v);
    zs0::register(&mut v);
    zs1::register(&mut v);
    zs2::register(&mut v);
    zs3::register(&mut v);
    zs4::register(&mut v);
    zs5::register(&mut v);
    zs6::register(&mut v);
    zs7::register(&mut v);
    v
}
