//! `Describe`: a `Reader` that walks a generated type once and records every constant the type
//! shows to a back end, in visiting order — the schema *as compiled* (DESIGN.md 2.3).

use asn1rs::descriptor::*;
use asn1rs::model::asn::Tag;
use serde_json::{json, Value as J};

pub type Item = J;

#[derive(Default)]
pub struct Describe {
    pub items: Vec<Item>,
    depth: usize,
}

fn tag(t: Tag) -> String {
    match t {
        Tag::Universal(n) => format!("UNIVERSAL {n}"),
        Tag::Application(n) => format!("APPLICATION {n}"),
        Tag::ContextSpecific(n) => format!("CONTEXT {n}"),
        Tag::Private(n) => format!("PRIVATE {n}"),
    }
}

impl Describe {
    fn guard(&mut self) -> Result<(), String> {
        if self.depth > 64 {
            return Err("type nesting deeper than 64 (recursive type?)".into());
        }
        Ok(())
    }
    fn sized(&mut self, kind: &str, t: Tag, min: Option<u64>, max: Option<u64>, ext: bool) {
        self.items.push(json!({"k": kind, "tag": tag(t), "min": min, "max": max, "ext": ext}));
    }
}

pub fn describe<T: Readable>() -> Vec<Item> {
    let mut d = Describe::default();
    match T::read(&mut d) {
        Ok(_) => d.items,
        Err(e) => {
            d.items.push(json!({"k": "error", "what": e}));
            d.items
        }
    }
}

impl Reader for Describe {
    type Error = String;

    fn read_sequence<C: sequence::Constraint, S: Sized, F: Fn(&mut Self) -> Result<S, Self::Error>>(&mut self, f: F) -> Result<S, Self::Error> {
        self.guard()?;
        self.items.push(json!({"k": "sequence", "name": C::NAME, "tag": tag(C::TAG), "opt": C::STD_OPTIONAL_FIELDS, "fields": C::FIELD_COUNT, "ext_after": C::EXTENDED_AFTER_FIELD}));
        self.depth += 1;
        let r = f(self);
        self.depth -= 1;
        self.items.push(json!({"k": "end"}));
        r
    }
    fn read_sequence_of<C: sequenceof::Constraint, T: ReadableType>(&mut self) -> Result<Vec<T::Type>, Self::Error> {
        self.guard()?;
        self.sized("sequence_of", C::TAG, C::MIN, C::MAX, C::EXTENSIBLE);
        self.depth += 1;
        let r = T::read_value(self);
        self.depth -= 1;
        self.items.push(json!({"k": "end"}));
        Ok(vec![r?])
    }
    fn read_set<C: set::Constraint, S: Sized, F: Fn(&mut Self) -> Result<S, Self::Error>>(&mut self, f: F) -> Result<S, Self::Error> {
        self.guard()?;
        self.items.push(json!({"k": "set", "name": C::NAME, "tag": tag(C::TAG), "opt": C::STD_OPTIONAL_FIELDS, "fields": C::FIELD_COUNT, "ext_after": C::EXTENDED_AFTER_FIELD}));
        self.depth += 1;
        let r = f(self);
        self.depth -= 1;
        self.items.push(json!({"k": "end"}));
        r
    }
    fn read_set_of<C: setof::Constraint, T: ReadableType>(&mut self) -> Result<Vec<T::Type>, Self::Error> {
        self.guard()?;
        self.sized("set_of", C::TAG, C::MIN, C::MAX, C::EXTENSIBLE);
        self.depth += 1;
        let r = T::read_value(self);
        self.depth -= 1;
        self.items.push(json!({"k": "end"}));
        Ok(vec![r?])
    }
    fn read_enumerated<C: enumerated::Constraint>(&mut self) -> Result<C, Self::Error> {
        self.items.push(json!({"k": "enumerated", "name": C::NAME, "tag": tag(C::TAG), "variants": C::VARIANT_COUNT, "std": C::STD_VARIANT_COUNT, "ext": C::EXTENSIBLE}));
        C::from_choice_index(0).ok_or_else(|| "enumeration without item 0".to_string())
    }
    fn read_choice<C: choice::Constraint>(&mut self) -> Result<C, Self::Error> {
        self.guard()?;
        self.items.push(json!({"k": "choice", "name": C::NAME, "tag": tag(C::TAG), "variants": C::VARIANT_COUNT, "std": C::STD_VARIANT_COUNT, "ext": C::EXTENSIBLE}));
        self.depth += 1;
        let mut last = None;
        for i in 0..C::VARIANT_COUNT {
            self.items.push(json!({"k": "alt", "i": i}));
            match C::read_content(i, self) {
                Ok(Some(c)) => last = Some(c),
                Ok(None) => self.items.push(json!({"k": "error", "what": format!("alternative {i} of {} not readable", C::NAME)})),
                Err(e) => {
                    self.depth -= 1;
                    return Err(e);
                }
            }
        }
        self.depth -= 1;
        self.items.push(json!({"k": "end"}));
        last.ok_or_else(|| "choice without alternatives".to_string())
    }
    fn read_opt<T: ReadableType>(&mut self) -> Result<Option<T::Type>, Self::Error> {
        self.items.push(json!({"k": "optional"}));
        T::read_value(self).map(Some)
    }
    fn read_default<C: default::Constraint<Owned = T::Type>, T: ReadableType>(&mut self) -> Result<T::Type, Self::Error> {
        self.items.push(json!({"k": "default", "value": format!("{:?}", C::DEFAULT_VALUE)}));
        T::read_value(self)
    }
    fn read_number<T: numbers::Number, C: numbers::Constraint<T>>(&mut self) -> Result<T, Self::Error> {
        self.items.push(json!({"k": "integer", "ty": std::any::type_name::<T>(), "tag": tag(C::TAG), "min": C::MIN, "max": C::MAX, "ext": C::EXTENSIBLE}));
        Ok(T::from_i64(0))
    }
    fn read_utf8string<C: utf8string::Constraint>(&mut self) -> Result<String, Self::Error> {
        self.sized("utf8string", C::TAG, C::MIN, C::MAX, C::EXTENSIBLE);
        Ok(String::new())
    }
    fn read_ia5string<C: ia5string::Constraint>(&mut self) -> Result<String, Self::Error> {
        self.sized("ia5string", C::TAG, C::MIN, C::MAX, C::EXTENSIBLE);
        Ok(String::new())
    }
    fn read_numeric_string<C: numericstring::Constraint>(&mut self) -> Result<String, Self::Error> {
        self.sized("numericstring", C::TAG, C::MIN, C::MAX, C::EXTENSIBLE);
        Ok(String::new())
    }
    fn read_visible_string<C: visiblestring::Constraint>(&mut self) -> Result<String, Self::Error> {
        self.sized("visiblestring", C::TAG, C::MIN, C::MAX, C::EXTENSIBLE);
        Ok(String::new())
    }
    fn read_printable_string<C: printablestring::Constraint>(&mut self) -> Result<String, Self::Error> {
        self.sized("printablestring", C::TAG, C::MIN, C::MAX, C::EXTENSIBLE);
        Ok(String::new())
    }
    fn read_octet_string<C: octetstring::Constraint>(&mut self) -> Result<Vec<u8>, Self::Error> {
        self.sized("octetstring", C::TAG, C::MIN, C::MAX, C::EXTENSIBLE);
        Ok(Vec::new())
    }
    fn read_bit_string<C: bitstring::Constraint>(&mut self) -> Result<(Vec<u8>, u64), Self::Error> {
        self.sized("bitstring", C::TAG, C::MIN, C::MAX, C::EXTENSIBLE);
        Ok((Vec::new(), 0))
    }
    fn read_boolean<C: boolean::Constraint>(&mut self) -> Result<bool, Self::Error> {
        self.items.push(json!({"k": "boolean", "tag": tag(C::TAG)}));
        Ok(false)
    }
    fn read_null<C: null::Constraint>(&mut self) -> Result<Null, Self::Error> {
        self.items.push(json!({"k": "null", "tag": tag(C::TAG)}));
        Ok(Null)
    }
}
