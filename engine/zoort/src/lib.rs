//! zoort: glue between abstract values (vcore::schema::Value) and the Rust types asn1rs generates.
//! Uses only the public visitor traits `asn1rs::descriptor::{Reader, Writer}` (DESIGN.md 2.3):
//!  * `ValueReader`  — "decodes" from a `Value` tree, i.e. constructs a `T`;
//!  * `ValueWriter`  — records what `T::write` shows and turns a `T` back into a `Value`;
//!  * `Describe`     — walks a type once and records every constant it is shown;
//!  * `ZooType`      — type-erased operations on one generated type (registry entry).

use asn1rs::descriptor::*;
use asn1rs::prelude::{ProtobufReader, ProtobufWriter, UperReader, UperWriter};
use asn1rs::protocol::per;
use asn1rs::rw::Bits;
use std::any::Any;
use std::fmt::Debug;
use std::marker::PhantomData;
use vcore::bitmodel::{bits_of, bytes_of};
use vcore::schema::Value;

pub mod describe;

// ---------------------------------------------------------------------------------------------
// ValueReader

pub struct ValueReader<'v> {
    /// stack of slot iterators; a slot is `Option<&Value>` (None = absent optional)
    stack: Vec<std::vec::IntoIter<Option<&'v Value>>>,
}

impl<'v> ValueReader<'v> {
    pub fn new(v: &'v Value) -> Self {
        Self { stack: vec![vec![Some(v)].into_iter()] }
    }
    fn next_slot(&mut self) -> Result<Option<&'v Value>, String> {
        self.stack.last_mut().ok_or("value stack empty")?.next().ok_or_else(|| "the type reads more slots than the value has".to_string())
    }
    fn next(&mut self) -> Result<&'v Value, String> {
        self.next_slot()?.ok_or_else(|| "absent slot where a value is required".to_string())
    }
    fn scoped<T>(&mut self, slots: Vec<Option<&'v Value>>, f: impl FnOnce(&mut Self) -> Result<T, String>) -> Result<T, String> {
        self.stack.push(slots.into_iter());
        let r = f(self);
        let rest = self.stack.pop().map(|mut it| it.next().is_some()).unwrap_or(false);
        let r = r?;
        if rest {
            return Err("the value has more slots than the type reads".into());
        }
        Ok(r)
    }
    fn string(&mut self) -> Result<String, String> {
        match self.next()? {
            Value::Str(s) => Ok(s.clone()),
            o => Err(format!("string expected, got {}", o.brief())),
        }
    }
}

impl<'v> Reader for ValueReader<'v> {
    type Error = String;

    fn read_sequence<C: sequence::Constraint, S: Sized, F: Fn(&mut Self) -> Result<S, Self::Error>>(&mut self, f: F) -> Result<S, Self::Error> {
        match self.next()? {
            Value::Seq(slots) => {
                if slots.len() as u64 != C::FIELD_COUNT {
                    return Err(format!("{}: value has {} slots, type has {} fields", C::NAME, slots.len(), C::FIELD_COUNT));
                }
                self.scoped(slots.iter().map(|s| s.as_ref()).collect(), |r| f(r))
            }
            o => Err(format!("{}: sequence value expected, got {}", C::NAME, o.brief())),
        }
    }

    fn read_sequence_of<C: sequenceof::Constraint, T: ReadableType>(&mut self) -> Result<Vec<T::Type>, Self::Error> {
        match self.next()? {
            Value::List(items) => self.scoped(items.iter().map(Some).collect(), |r| {
                let mut v = Vec::with_capacity(items.len());
                for _ in 0..items.len() {
                    v.push(T::read_value(r)?);
                }
                Ok(v)
            }),
            o => Err(format!("list expected, got {}", o.brief())),
        }
    }

    fn read_set<C: set::Constraint, S: Sized, F: Fn(&mut Self) -> Result<S, Self::Error>>(&mut self, f: F) -> Result<S, Self::Error> {
        // the generated read_seq of a SET constructs the struct by field *name*; the order in which it
        // asks for the fields is the canonical one. The value's slots are in textual order, so a
        // SET cannot be driven positionally: see `SetSlots`.
        match self.next()? {
            Value::Seq(slots) => {
                if slots.len() as u64 != C::FIELD_COUNT {
                    return Err(format!("{}: value has {} slots, type has {} fields", C::NAME, slots.len(), C::FIELD_COUNT));
                }
                self.scoped(slots.iter().map(|s| s.as_ref()).collect(), |r| f(r))
            }
            o => Err(format!("{}: set value expected, got {}", C::NAME, o.brief())),
        }
    }

    fn read_set_of<C: setof::Constraint, T: ReadableType>(&mut self) -> Result<Vec<T::Type>, Self::Error> {
        match self.next()? {
            Value::List(items) => self.scoped(items.iter().map(Some).collect(), |r| {
                let mut v = Vec::with_capacity(items.len());
                for _ in 0..items.len() {
                    v.push(T::read_value(r)?);
                }
                Ok(v)
            }),
            o => Err(format!("list expected, got {}", o.brief())),
        }
    }

    fn read_enumerated<C: enumerated::Constraint>(&mut self) -> Result<C, Self::Error> {
        match self.next()? {
            Value::Enum(i) => C::from_choice_index(*i as u64).ok_or_else(|| format!("{}: no item #{i}", C::NAME)),
            o => Err(format!("{}: enumerated value expected, got {}", C::NAME, o.brief())),
        }
    }

    fn read_choice<C: choice::Constraint>(&mut self) -> Result<C, Self::Error> {
        match self.next()? {
            Value::Choice(i, inner) => self.scoped(vec![Some(&**inner)], |r| C::read_content(*i as u64, r)?.ok_or_else(|| format!("{}: no alternative #{i}", C::NAME))),
            o => Err(format!("{}: choice value expected, got {}", C::NAME, o.brief())),
        }
    }

    fn read_opt<T: ReadableType>(&mut self) -> Result<Option<T::Type>, Self::Error> {
        match self.next_slot()? {
            None => Ok(None),
            Some(v) => self.scoped(vec![Some(v)], |r| T::read_value(r)).map(Some),
        }
    }

    fn read_default<C: default::Constraint<Owned = T::Type>, T: ReadableType>(&mut self) -> Result<T::Type, Self::Error> {
        match self.next_slot()? {
            None => Ok(C::DEFAULT_VALUE.to_owned()),
            Some(v) => self.scoped(vec![Some(v)], |r| T::read_value(r)),
        }
    }

    fn read_number<T: numbers::Number, C: numbers::Constraint<T>>(&mut self) -> Result<T, Self::Error> {
        match self.next()? {
            Value::Int(i) => {
                // representable in the Rust field type?
                let t = std::any::type_name::<T>();
                let (lo, hi): (i128, i128) = match t {
                    "u8" => (0, u8::MAX as i128),
                    "u16" => (0, u16::MAX as i128),
                    "u32" => (0, u32::MAX as i128),
                    "u64" => (0, u64::MAX as i128),
                    "i8" => (i8::MIN as i128, i8::MAX as i128),
                    "i16" => (i16::MIN as i128, i16::MAX as i128),
                    "i32" => (i32::MIN as i128, i32::MAX as i128),
                    _ => (i64::MIN as i128, i64::MAX as i128),
                };
                if *i < lo || *i > hi {
                    return Err(format!("unrepresentable: {i} does not fit {t}"));
                }
                Ok(T::from_i64(*i as u64 as i64))
            }
            o => Err(format!("integer expected, got {}", o.brief())),
        }
    }

    fn read_utf8string<C: utf8string::Constraint>(&mut self) -> Result<String, Self::Error> {
        self.string()
    }
    fn read_ia5string<C: ia5string::Constraint>(&mut self) -> Result<String, Self::Error> {
        self.string()
    }
    fn read_numeric_string<C: numericstring::Constraint>(&mut self) -> Result<String, Self::Error> {
        self.string()
    }
    fn read_visible_string<C: visiblestring::Constraint>(&mut self) -> Result<String, Self::Error> {
        self.string()
    }
    fn read_printable_string<C: printablestring::Constraint>(&mut self) -> Result<String, Self::Error> {
        self.string()
    }

    fn read_octet_string<C: octetstring::Constraint>(&mut self) -> Result<Vec<u8>, Self::Error> {
        match self.next()? {
            Value::Bytes(b) => Ok(b.clone()),
            o => Err(format!("octet string expected, got {}", o.brief())),
        }
    }

    fn read_bit_string<C: bitstring::Constraint>(&mut self) -> Result<(Vec<u8>, u64), Self::Error> {
        match self.next()? {
            // the canonical form the public constructors produce: ceil(n/8) bytes, zero padding
            Value::Bits(b) => Ok((bytes_of(b), b.len() as u64)),
            o => Err(format!("bit string expected, got {}", o.brief())),
        }
    }

    fn read_boolean<C: boolean::Constraint>(&mut self) -> Result<bool, Self::Error> {
        match self.next()? {
            Value::Bool(b) => Ok(*b),
            o => Err(format!("boolean expected, got {}", o.brief())),
        }
    }

    fn read_null<C: null::Constraint>(&mut self) -> Result<Null, Self::Error> {
        match self.next()? {
            Value::Null => Ok(Null),
            o => Err(format!("NULL expected, got {}", o.brief())),
        }
    }
}

// ---------------------------------------------------------------------------------------------
// ValueWriter

#[derive(Default)]
pub struct ValueWriter {
    stack: Vec<Vec<Option<Value>>>,
}

impl ValueWriter {
    pub fn new() -> Self {
        Self { stack: vec![Vec::new()] }
    }
    fn push(&mut self, v: Option<Value>) {
        self.stack.last_mut().expect("stack").push(v);
    }
    fn scoped(&mut self, f: impl FnOnce(&mut Self) -> Result<(), String>) -> Result<Vec<Option<Value>>, String> {
        self.stack.push(Vec::new());
        let r = f(self);
        let slots = self.stack.pop().unwrap();
        r?;
        Ok(slots)
    }
    fn one(&mut self, f: impl FnOnce(&mut Self) -> Result<(), String>) -> Result<Value, String> {
        let mut slots = self.scoped(f)?;
        if slots.len() != 1 {
            return Err(format!("{} values where exactly one is expected", slots.len()));
        }
        slots.pop().unwrap().ok_or_else(|| "absent value where one is required".to_string())
    }
    pub fn finish(mut self) -> Result<Value, String> {
        let mut top = self.stack.pop().ok_or("stack")?;
        if top.len() != 1 {
            return Err(format!("{} top-level values", top.len()));
        }
        top.pop().unwrap().ok_or_else(|| "absent top-level value".to_string())
    }
}

impl Writer for ValueWriter {
    type Error = String;

    fn write_sequence<C: sequence::Constraint, F: Fn(&mut Self) -> Result<(), Self::Error>>(&mut self, f: F) -> Result<(), Self::Error> {
        let slots = self.scoped(|w| f(w))?;
        self.push(Some(Value::Seq(slots)));
        Ok(())
    }
    fn write_sequence_of<C: sequenceof::Constraint, T: WritableType>(&mut self, slice: &[T::Type]) -> Result<(), Self::Error> {
        let slots = self.scoped(|w| {
            for v in slice {
                T::write_value(w, v)?;
            }
            Ok(())
        })?;
        let items = slots.into_iter().collect::<Option<Vec<Value>>>().ok_or("absent list element")?;
        self.push(Some(Value::List(items)));
        Ok(())
    }
    fn write_set<C: set::Constraint, F: Fn(&mut Self) -> Result<(), Self::Error>>(&mut self, f: F) -> Result<(), Self::Error> {
        let slots = self.scoped(|w| f(w))?;
        self.push(Some(Value::Seq(slots)));
        Ok(())
    }
    fn write_set_of<C: setof::Constraint, T: WritableType>(&mut self, slice: &[T::Type]) -> Result<(), Self::Error> {
        let slots = self.scoped(|w| {
            for v in slice {
                T::write_value(w, v)?;
            }
            Ok(())
        })?;
        let items = slots.into_iter().collect::<Option<Vec<Value>>>().ok_or("absent list element")?;
        self.push(Some(Value::List(items)));
        Ok(())
    }
    fn write_enumerated<C: enumerated::Constraint>(&mut self, enumerated: &C) -> Result<(), Self::Error> {
        self.push(Some(Value::Enum(enumerated.to_choice_index() as usize)));
        Ok(())
    }
    fn write_choice<C: choice::Constraint>(&mut self, choice: &C) -> Result<(), Self::Error> {
        let idx = choice.to_choice_index() as usize;
        let inner = self.one(|w| choice.write_content(w))?;
        self.push(Some(Value::Choice(idx, Box::new(inner))));
        Ok(())
    }
    fn write_opt<T: WritableType>(&mut self, value: Option<&T::Type>) -> Result<(), Self::Error> {
        match value {
            None => self.push(None),
            Some(v) => {
                let inner = self.one(|w| T::write_value(w, v))?;
                self.push(Some(inner));
            }
        }
        Ok(())
    }
    fn write_default<C: default::Constraint<Owned = T::Type>, T: WritableType>(&mut self, value: &T::Type) -> Result<(), Self::Error> {
        let inner = self.one(|w| T::write_value(w, value))?;
        self.push(Some(inner));
        Ok(())
    }
    fn write_number<T: numbers::Number, C: numbers::Constraint<T>>(&mut self, value: T) -> Result<(), Self::Error> {
        let v = value.to_i64();
        let i = if std::any::type_name::<T>() == "u64" { v as u64 as i128 } else { v as i128 };
        self.push(Some(Value::Int(i)));
        Ok(())
    }
    fn write_utf8string<C: utf8string::Constraint>(&mut self, value: &str) -> Result<(), Self::Error> {
        self.push(Some(Value::Str(value.to_string())));
        Ok(())
    }
    fn write_ia5string<C: ia5string::Constraint>(&mut self, value: &str) -> Result<(), Self::Error> {
        self.push(Some(Value::Str(value.to_string())));
        Ok(())
    }
    fn write_numeric_string<C: numericstring::Constraint>(&mut self, value: &str) -> Result<(), Self::Error> {
        self.push(Some(Value::Str(value.to_string())));
        Ok(())
    }
    fn write_visible_string<C: visiblestring::Constraint>(&mut self, value: &str) -> Result<(), Self::Error> {
        self.push(Some(Value::Str(value.to_string())));
        Ok(())
    }
    fn write_printable_string<C: printablestring::Constraint>(&mut self, value: &str) -> Result<(), Self::Error> {
        self.push(Some(Value::Str(value.to_string())));
        Ok(())
    }
    fn write_octet_string<C: octetstring::Constraint>(&mut self, value: &[u8]) -> Result<(), Self::Error> {
        self.push(Some(Value::Bytes(value.to_vec())));
        Ok(())
    }
    fn write_bit_string<C: bitstring::Constraint>(&mut self, value: &[u8], bit_len: u64) -> Result<(), Self::Error> {
        let mut bits = bits_of(value);
        if (bit_len as usize) > bits.len() {
            return Err(format!("BitVec declares {bit_len} bits but holds {} bytes", value.len()));
        }
        bits.truncate(bit_len as usize);
        self.push(Some(Value::Bits(bits)));
        Ok(())
    }
    fn write_boolean<C: boolean::Constraint>(&mut self, value: bool) -> Result<(), Self::Error> {
        self.push(Some(Value::Bool(value)));
        Ok(())
    }
    fn write_null<C: null::Constraint>(&mut self, _value: &Null) -> Result<(), Self::Error> {
        self.push(Some(Value::Null));
        Ok(())
    }
}

// ---------------------------------------------------------------------------------------------
// type-erased registry entries

pub type AnyVal = Box<dyn Any>;

pub trait ZooType: Send + Sync {
    /// constructs a value of the generated type from an abstract value
    fn build(&self, v: &Value) -> Result<AnyVal, String>;
    /// turns a value of the generated type back into an abstract value
    fn extract(&self, t: &dyn Any) -> Result<Value, String>;
    fn same(&self, a: &dyn Any, b: &dyn Any) -> bool;
    fn debug(&self, a: &dyn Any) -> String;
    fn uper_write(&self, w: &mut UperWriter, t: &dyn Any) -> Result<(), per::Error>;
    fn uper_read<'a>(&self, r: &mut UperReader<Bits<'a>>) -> Result<AnyVal, per::Error>;
    /// protobuf bytes through the growable writer
    fn proto_write(&self, t: &dyn Any) -> Result<Vec<u8>, String>;
    /// protobuf bytes through the fixed-slice writer with a slice of `cap` bytes
    fn proto_write_slice(&self, t: &dyn Any, cap: usize) -> Result<Vec<u8>, String>;
    fn proto_read(&self, bytes: &[u8]) -> Result<AnyVal, String>;
    fn describe(&self) -> Vec<describe::Item>;
}

pub struct Z<T>(pub PhantomData<fn() -> T>);

impl<T: Readable + Writable + PartialEq + Debug + 'static> ZooType for Z<T> {
    fn build(&self, v: &Value) -> Result<AnyVal, String> {
        let mut r = ValueReader::new(v);
        let t = T::read(&mut r)?;
        Ok(Box::new(t))
    }
    fn extract(&self, t: &dyn Any) -> Result<Value, String> {
        let t = t.downcast_ref::<T>().ok_or("type mismatch")?;
        let mut w = ValueWriter::new();
        t.write(&mut w)?;
        w.finish()
    }
    fn same(&self, a: &dyn Any, b: &dyn Any) -> bool {
        match (a.downcast_ref::<T>(), b.downcast_ref::<T>()) {
            (Some(a), Some(b)) => a == b,
            _ => false,
        }
    }
    fn debug(&self, a: &dyn Any) -> String {
        a.downcast_ref::<T>().map(|a| format!("{a:?}")).unwrap_or_else(|| "<type mismatch>".into())
    }
    fn uper_write(&self, w: &mut UperWriter, t: &dyn Any) -> Result<(), per::Error> {
        let t = t.downcast_ref::<T>().expect("type mismatch");
        w.write(t)
    }
    fn uper_read<'a>(&self, r: &mut UperReader<Bits<'a>>) -> Result<AnyVal, per::Error> {
        let t = r.read::<T>()?;
        Ok(Box::new(t))
    }
    fn proto_write(&self, t: &dyn Any) -> Result<Vec<u8>, String> {
        let t = t.downcast_ref::<T>().ok_or("type mismatch")?;
        let mut w = ProtobufWriter::default();
        w.write(t).map_err(|e| format!("{e:?}"))?;
        Ok(w.into_bytes_vec())
    }
    fn proto_write_slice(&self, t: &dyn Any, cap: usize) -> Result<Vec<u8>, String> {
        let t = t.downcast_ref::<T>().ok_or("type mismatch")?;
        let mut buf = vec![0u8; cap];
        let mut w = ProtobufWriter::from(&mut buf[..]);
        w.write(t).map_err(|e| format!("{e:?}"))?;
        Ok(w.into_bytes_vec())
    }
    fn proto_read(&self, bytes: &[u8]) -> Result<AnyVal, String> {
        let mut r = ProtobufReader::from(bytes);
        let t = r.read::<T>().map_err(|e| format!("{e:?}"))?;
        Ok(Box::new(t))
    }
    fn describe(&self) -> Vec<describe::Item> {
        describe::describe::<T>()
    }
}

pub struct Entry {
    /// index of the module in the zoo's schema list
    pub module: usize,
    /// ASN.1 name of the definition
    pub name: &'static str,
    pub ty: Box<dyn ZooType>,
}

pub fn entry<T: Readable + Writable + PartialEq + Debug + 'static>(module: usize, name: &'static str) -> Entry {
    Entry { module, name, ty: Box::new(Z::<T>(PhantomData)) }
}
