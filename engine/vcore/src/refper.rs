//! Reference implementation of the *primitives* of ITU-T X.691 (02/2021) UNALIGNED PER, written
//! from the text of the standard, sharing no code with asn1rs. Clause numbers in comments.
//! All arithmetic is done in i128/u128 so that no 64-bit corner can overflow.

use crate::bitmodel::{BitSink, BitSource};

pub const K16: usize = 16384;
pub const K64: u128 = 65536;

/// number of bits needed to encode values 0..=range_minus_1 (10.5.7.1: "minimum number of bits
/// necessary to represent the range")
pub fn bits_for(range_minus_1: u128) -> u32 {
    128 - range_minus_1.leading_zeros()
}

/// minimal number of octets (>= 1) of a non-negative binary integer (11.3)
pub fn octets_nonneg(v: u128) -> usize {
    (((128 - v.leading_zeros()) as usize) + 7) / 8
}
pub fn octets_nonneg_min1(v: u128) -> usize {
    octets_nonneg(v).max(1)
}

/// minimal number of octets of a 2's-complement binary integer (11.4)
pub fn octets_twos(v: i128) -> usize {
    let mut n = 1;
    while n < 16 {
        let bits = 8 * n as u32;
        let min = -(1i128 << (bits - 1));
        let max = (1i128 << (bits - 1)) - 1;
        if v >= min && v <= max {
            return n;
        }
        n += 1;
    }
    16
}

// ---------------------------------------------------------------------------------------------
// 11.5 constrained whole number (UNALIGNED: 11.5.6 — minimum number of bits, no octet alignment)

pub fn enc_constrained(s: &mut BitSink, lb: i128, ub: i128, v: i128) {
    debug_assert!(lb <= v && v <= ub);
    let range = (ub - lb + 1) as u128;
    if range == 1 {
        return; // 11.5.4
    }
    s.push_uint((v - lb) as u128, bits_for(range - 1));
}

pub fn dec_constrained(r: &mut BitSource, lb: i128, ub: i128) -> Result<i128, String> {
    let range = (ub - lb + 1) as u128;
    if range == 1 {
        return Ok(lb);
    }
    let n = r.uint(bits_for(range - 1))?;
    let v = lb + n as i128;
    if v > ub {
        return Err(format!("constrained whole number {v} above upper bound {ub}"));
    }
    Ok(v)
}

// ---------------------------------------------------------------------------------------------
// 11.9.3.5-11.9.3.8 general (unconstrained) length determinant, with fragmentation

/// Encodes `n` items; `item(s, from, to)` appends the items [from, to).
pub fn enc_with_length(s: &mut BitSink, n: usize, item: &mut dyn FnMut(&mut BitSink, usize, usize)) {
    let mut done = 0usize;
    loop {
        let rest = n - done;
        if rest < 128 {
            // 11.9.3.6
            s.push(false);
            s.push_uint(rest as u128, 7);
            item(s, done, n);
            return;
        } else if rest < K16 {
            // 11.9.3.7
            s.push(true);
            s.push(false);
            s.push_uint(rest as u128, 14);
            item(s, done, n);
            return;
        } else {
            // 11.9.3.8: m = 1..4 blocks of 16K
            let m = (rest / K16).min(4);
            s.push(true);
            s.push(true);
            s.push_uint(m as u128, 6);
            item(s, done, done + m * K16);
            done += m * K16;
            // "… the procedure is repeated for the rest" — a rest of 0 is encoded too (11.9.3.8.3 note)
        }
    }
}

/// Decodes a fragmented item list; `item(r, count)` consumes `count` items. Returns total count.
pub fn dec_with_length(r: &mut BitSource, item: &mut dyn FnMut(&mut BitSource, usize) -> Result<(), String>) -> Result<usize, String> {
    let mut total = 0usize;
    loop {
        if !r.bit()? {
            let n = r.uint(7)? as usize;
            item(r, n)?;
            return Ok(total + n);
        } else if !r.bit()? {
            let n = r.uint(14)? as usize;
            if n < 128 {
                return Err("length < 128 in the 14-bit form is not canonical".into());
            }
            item(r, n)?;
            return Ok(total + n);
        } else {
            let m = r.uint(6)? as usize;
            if !(1..=4).contains(&m) {
                return Err(format!("fragment multiplier {m} not in 1..4"));
            }
            item(r, m * K16)?;
            total += m * K16;
        }
    }
}

/// the unconstrained length of a *small* count (used for octet counts of integers): n < 16384
pub fn enc_len_small(s: &mut BitSink, n: usize) {
    debug_assert!(n < K16);
    enc_with_length(s, n, &mut |_, _, _| {});
}
pub fn dec_len_small(r: &mut BitSource) -> Result<usize, String> {
    if !r.bit()? {
        Ok(r.uint(7)? as usize)
    } else if !r.bit()? {
        Ok(r.uint(14)? as usize)
    } else {
        Err("fragmented length where a small length is expected".into())
    }
}

// ---------------------------------------------------------------------------------------------
// 11.7 semi-constrained whole number, 11.8 unconstrained whole number, 11.6 normally small

pub fn enc_semi(s: &mut BitSink, lb: i128, v: i128) {
    debug_assert!(v >= lb);
    let n = (v - lb) as u128;
    let m = octets_nonneg_min1(n);
    enc_len_small(s, m);
    s.push_uint(n, 8 * m as u32);
}

pub fn dec_semi(r: &mut BitSource, lb: i128) -> Result<i128, String> {
    let m = dec_len_small(r)?;
    if m == 0 || m > 16 {
        return Err(format!("octet count {m} of a semi-constrained whole number"));
    }
    let n = r.uint(8 * m as u32)?;
    if octets_nonneg_min1(n) != m {
        return Err("semi-constrained whole number not in the minimum number of octets".into());
    }
    Ok(lb + n as i128)
}

pub fn enc_unconstrained(s: &mut BitSink, v: i128) {
    let m = octets_twos(v);
    enc_len_small(s, m);
    let bits = 8 * m as u32;
    let mask = if bits == 128 { u128::MAX } else { (1u128 << bits) - 1 };
    s.push_uint((v as u128) & mask, bits);
}

pub fn dec_unconstrained(r: &mut BitSource) -> Result<i128, String> {
    let m = dec_len_small(r)?;
    if m == 0 || m > 16 {
        return Err(format!("octet count {m} of an unconstrained whole number"));
    }
    let bits = 8 * m as u32;
    let n = r.uint(bits)?;
    let v = if bits < 128 && n & (1u128 << (bits - 1)) != 0 { (n as i128) - (1i128 << bits) } else { n as i128 };
    if octets_twos(v) != m {
        return Err("unconstrained whole number not in the minimum number of octets".into());
    }
    Ok(v)
}

pub fn enc_normally_small(s: &mut BitSink, v: u128) {
    if v <= 63 {
        s.push(false); // 11.6.1
        s.push_uint(v, 6);
    } else {
        s.push(true); // 11.6.2
        enc_semi(s, 0, v as i128);
    }
}

pub fn dec_normally_small(r: &mut BitSource) -> Result<u128, String> {
    if !r.bit()? {
        r.uint(6)
    } else {
        let v = dec_semi(r, 0)? as u128;
        if v <= 63 {
            return Err("normally small number <= 63 in the long form".into());
        }
        Ok(v)
    }
}

/// 11.9.3.4 normally small length (n >= 1)
pub fn enc_normally_small_length(s: &mut BitSink, n: usize) {
    debug_assert!(n >= 1);
    if n <= 64 {
        s.push(false);
        s.push_uint((n - 1) as u128, 6);
    } else {
        s.push(true);
        enc_with_length(s, n, &mut |_, _, _| {});
    }
}

pub fn dec_normally_small_length(r: &mut BitSource) -> Result<usize, String> {
    if !r.bit()? {
        Ok(r.uint(6)? as usize + 1)
    } else {
        dec_len_small(r)
    }
}

// ---------------------------------------------------------------------------------------------
// 11.9.4 length determinant under a size constraint

/// How the length of a sized thing is encoded (11.9.4.1 / 11.9.4.2, and 16.x/17.x/20.x for the
/// surrounding rules). `lb`/`ub` are the *effective* size constraint (None = unbounded).
#[derive(Clone, Copy, Debug, PartialEq, Eq)]
pub enum LenForm {
    /// ub = lb < 64K: no length at all
    Fixed(usize),
    /// ub < 64K: constrained whole number lb..ub
    Constrained(usize, usize),
    /// ub unset or >= 64K: general form with fragmentation
    Unconstrained,
}

pub fn len_form(lb: Option<u128>, ub: Option<u128>) -> LenForm {
    let lb = lb.unwrap_or(0);
    match ub {
        Some(ub) if ub < K64 => {
            if lb == ub {
                LenForm::Fixed(ub as usize)
            } else {
                LenForm::Constrained(lb as usize, ub as usize)
            }
        }
        _ => LenForm::Unconstrained,
    }
}

/// Encodes a list of `n` units under size constraint (lb, ub, extensible).
/// Caller guarantees: if !extensible then lb <= n <= ub.
pub fn enc_sized(
    s: &mut BitSink,
    lb: Option<u128>,
    ub: Option<u128>,
    extensible: bool,
    n: usize,
    item: &mut dyn FnMut(&mut BitSink, usize, usize),
) {
    let in_root = (n as u128) >= lb.unwrap_or(0) && ub.map(|u| (n as u128) <= u).unwrap_or(true);
    if extensible {
        s.push(!in_root); // 16.6 / 17.3 / 20.4 / 30.5.? : extension bit
        if !in_root {
            enc_with_length(s, n, item); // as if no size constraint
            return;
        }
    }
    debug_assert!(in_root);
    match len_form(lb, ub) {
        LenForm::Fixed(_) => item(s, 0, n),
        LenForm::Constrained(lb, ub) => {
            enc_constrained(s, lb as i128, ub as i128, n as i128);
            item(s, 0, n);
        }
        LenForm::Unconstrained => enc_with_length(s, n, item),
    }
}

pub fn dec_sized(
    r: &mut BitSource,
    lb: Option<u128>,
    ub: Option<u128>,
    extensible: bool,
    item: &mut dyn FnMut(&mut BitSource, usize) -> Result<(), String>,
) -> Result<usize, String> {
    if extensible && r.bit()? {
        let n = dec_with_length(r, item)?;
        let in_root = (n as u128) >= lb.unwrap_or(0) && ub.map(|u| (n as u128) <= u).unwrap_or(true);
        if in_root {
            return Err("extension form used for a size inside the root".into());
        }
        return Ok(n);
    }
    match len_form(lb, ub) {
        LenForm::Fixed(n) => {
            item(r, n)?;
            Ok(n)
        }
        LenForm::Constrained(lb, ub) => {
            let n = dec_constrained(r, lb as i128, ub as i128)? as usize;
            item(r, n)?;
            Ok(n)
        }
        LenForm::Unconstrained => {
            let n = dec_with_length(r, item)?;
            if (n as u128) < lb.unwrap_or(0) || ub.map(|u| (n as u128) > u).unwrap_or(false) {
                return Err("size outside the constraint".into());
            }
            Ok(n)
        }
    }
}

// ---------------------------------------------------------------------------------------------
// 14 / 23: enumeration and choice indices

pub fn enc_index(s: &mut BitSink, root: u128, extensible: bool, index: u128) {
    if extensible {
        s.push(index >= root);
        if index >= root {
            enc_normally_small(s, index - root); // 14.3 / 23.8
            return;
        }
    }
    debug_assert!(index < root);
    enc_constrained(s, 0, root as i128 - 1, index as i128);
}

pub fn dec_index(r: &mut BitSource, root: u128, extensible: bool) -> Result<u128, String> {
    if extensible && r.bit()? {
        return Ok(root + dec_normally_small(r)?);
    }
    Ok(dec_constrained(r, 0, root as i128 - 1)? as u128)
}

// ---------------------------------------------------------------------------------------------
// 11.2 open type: octet-aligned-bit-field wrapped with a general length

pub fn enc_open_type(s: &mut BitSink, inner: &BitSink) {
    let mut bytes = inner.to_bytes(); // padded with zero bits
    if bytes.is_empty() {
        bytes.push(0); // 11.2.1 / 10.1.3: at least one octet
    }
    enc_with_length(s, bytes.len(), &mut |s, from, to| s.push_bytes(&bytes[from..to]));
}

/// returns the octets of the open type
pub fn dec_open_type(r: &mut BitSource) -> Result<Vec<u8>, String> {
    let mut bytes = Vec::new();
    dec_with_length(r, &mut |r, n| {
        bytes.extend(r.bytes(n)?);
        Ok(())
    })?;
    if bytes.is_empty() {
        return Err("open type with zero octets".into());
    }
    Ok(bytes)
}

#[cfg(test)]
mod tests {
    use super::*;
    use crate::bitmodel::bitstr;

    fn enc(f: impl FnOnce(&mut BitSink)) -> String {
        let mut s = BitSink::new();
        f(&mut s);
        bitstr(&s.bits)
    }

    #[test]
    fn constrained() {
        assert_eq!(enc(|s| enc_constrained(s, 0, 7, 5)), "101");
        assert_eq!(enc(|s| enc_constrained(s, -5, 5, -3)), "0010");
        assert_eq!(enc(|s| enc_constrained(s, 3, 3, 3)), "");
        assert_eq!(enc(|s| enc_constrained(s, 0, 255, 255)), "11111111");
        assert_eq!(enc(|s| enc_constrained(s, 0, 256, 256)), "100000000");
        assert_eq!(enc(|s| enc_constrained(s, 0, 65535, 1)).len(), 16);
        assert_eq!(enc(|s| enc_constrained(s, i64::MIN as i128, i64::MAX as i128, 0)).len(), 64);
    }

    #[test]
    fn lengths() {
        assert_eq!(enc(|s| enc_len_small(s, 0)), "00000000");
        assert_eq!(enc(|s| enc_len_small(s, 127)), "01111111");
        assert_eq!(enc(|s| enc_len_small(s, 128)), "1000000010000000");
        assert_eq!(enc(|s| enc_len_small(s, 16383)), "1011111111111111");
        // 16384 items: one fragment of 1 x 16K and a zero-length rest
        let e = enc(|s| enc_with_length(s, 16384, &mut |_, _, _| {}));
        assert_eq!(e, "1100000100000000");
        let e = enc(|s| enc_with_length(s, 16385, &mut |_, _, _| {}));
        assert_eq!(e, "1100000100000001");
        // 5 x 16K = 4 blocks + 1 block + zero rest
        let e = enc(|s| enc_with_length(s, 5 * 16384, &mut |_, _, _| {}));
        assert_eq!(e, "110001001100000100000000");
    }

    #[test]
    fn whole_numbers() {
        assert_eq!(enc(|s| enc_unconstrained(s, 0)), "0000000100000000");
        assert_eq!(enc(|s| enc_unconstrained(s, 127)), "0000000101111111");
        assert_eq!(enc(|s| enc_unconstrained(s, 128)), "000000100000000010000000");
        assert_eq!(enc(|s| enc_unconstrained(s, -128)), "0000000110000000");
        assert_eq!(enc(|s| enc_unconstrained(s, -129)), "000000101111111101111111");
        assert_eq!(enc(|s| enc_semi(s, 0, 0)), "0000000100000000");
        assert_eq!(enc(|s| enc_semi(s, 0, 255)), "0000000111111111");
        assert_eq!(enc(|s| enc_semi(s, 0, 256)), "000000100000000100000000");
        assert_eq!(enc(|s| enc_normally_small(s, 5)), "0000101");
        assert_eq!(enc(|s| enc_normally_small(s, 63)), "0111111");
        assert_eq!(enc(|s| enc_normally_small(s, 64)), "10000000101000000");
        assert_eq!(enc(|s| enc_normally_small_length(s, 1)), "0000000");
        assert_eq!(enc(|s| enc_normally_small_length(s, 64)), "0111111");
        assert_eq!(enc(|s| enc_normally_small_length(s, 65)), "101000001");
    }

    #[test]
    fn roundtrips() {
        for v in [-70000i128, -32769, -32768, -129, -128, -1, 0, 1, 127, 128, 255, 256, 32767, 32768, 1 << 40, i64::MAX as i128, i64::MIN as i128] {
            let mut s = BitSink::new();
            enc_unconstrained(&mut s, v);
            let mut r = BitSource::new(&s.bits);
            assert_eq!(dec_unconstrained(&mut r).unwrap(), v);
            assert_eq!(r.remaining(), 0);
        }
        for n in [0usize, 1, 127, 128, 16383, 16384, 16385, 32768, 65535, 65536, 65537, 70000, 200000] {
            let mut s = BitSink::new();
            enc_with_length(&mut s, n, &mut |s, a, b| {
                for i in a..b {
                    s.push(i % 3 == 0)
                }
            });
            let mut r = BitSource::new(&s.bits);
            let mut got = Vec::new();
            let m = dec_with_length(&mut r, &mut |r, c| {
                for _ in 0..c {
                    got.push(r.bit()?)
                }
                Ok(())
            })
            .unwrap();
            assert_eq!(m, n);
            assert_eq!(got.len(), n);
            assert!(got.iter().enumerate().all(|(i, b)| *b == (i % 3 == 0)));
            assert_eq!(r.remaining(), 0);
        }
    }
}
