//! Front-end profile of the schema generator (DESIGN.md 3.2): a roundtrip-profile module
//! decorated with what only the front end sees — tags of all four classes on definitions and
//! components, value assignments of every literal kind, value references in ranges / sizes /
//! defaults, IMPORTS with and without OID, module OIDs, tagging defaults, identifier variety.

use crate::gen::{module_strategy, Profile};
use crate::schema::*;
use proptest::prelude::*;
use proptest::strategy::BoxedStrategy;

pub struct Rand(pub u64);
impl Rand {
    pub fn next(&mut self) -> u64 {
        self.0 ^= self.0 << 13;
        self.0 ^= self.0 >> 7;
        self.0 ^= self.0 << 17;
        self.0 >> 8
    }
    pub fn below(&mut self, n: u64) -> u64 {
        self.next() % n.max(1)
    }
    pub fn chance(&mut self, percent: u64) -> bool {
        self.below(100) < percent
    }
}

const FIELD_NAMES: [&str; 24] = ["a", "b", "count", "my-field", "fooBar", "x1", "long-name-with-hyphens", "id", "value", "flag", "speed", "station-id", "e", "tS", "ab-c-d", "z9", "payload", "node", "kind", "level", "q", "r2-d2", "item", "extra"];
const TYPE_NAMES: [&str; 12] = ["Alpha", "Beta", "My-Type", "FooBar", "Msg", "Station-Id", "T1", "Packet", "Inner", "Header-V2", "Zed", "Ab-Cd"];
const MODULE_NAMES: [&str; 8] = ["Zoo", "My-Module", "FooModule", "Bar_Module", "X1", "Protocol-V2", "Sample", "TestSchema"];

fn random_tag(r: &mut Rand) -> Tag {
    let class = match r.below(4) {
        0 => TagClass::Universal,
        1 => TagClass::Application,
        2 => TagClass::Context,
        _ => TagClass::Private,
    };
    let number = match r.below(6) {
        0 => 0,
        1 => 30,
        2 => 31,
        3 => 127 + r.below(3) as u32,
        _ => r.below(20) as u32,
    };
    Tag { class, number }
}

fn oid(r: &mut Rand) -> Vec<OidComp> {
    let n = 1 + r.below(5);
    (0..n)
        .map(|i| match r.below(3) {
            0 => OidComp { name: None, number: Some(r.below(1000)) },
            1 => OidComp { name: Some(["iso", "standard", "itu-t", "foo", "bar-baz"][(r.below(5)) as usize].to_string()), number: Some(i + r.below(50)) },
            _ => OidComp { name: Some(["iso", "member-body", "us", "example"][(r.below(4)) as usize].to_string()), number: None },
        })
        .collect()
}

/// renames definitions, components, alternatives and enumeration items consistently
fn rename(m: &mut Module, r: &mut Rand) {
    // definitions
    let mut map: Vec<(String, String)> = Vec::new();
    let offset = r.below(12) as usize;
    let names: Vec<String> = m.defs().map(|d| d.name.clone()).collect();
    for (i, n) in names.iter().enumerate() {
        let base = TYPE_NAMES[(offset + i) % TYPE_NAMES.len()];
        let new = if i < TYPE_NAMES.len() { base.to_string() } else { format!("{base}{i}") };
        map.push((n.clone(), new));
    }
    let lookup = |n: &str| map.iter().find(|(a, _)| a == n).map(|(_, b)| b.clone()).unwrap_or_else(|| n.to_string());
    fn walk(t: &mut Type, lookup: &dyn Fn(&str) -> String, r: &mut Rand) {
        match t {
            Type::Ref(n) => *n = lookup(n),
            Type::Sequence(f) | Type::Set(f) => {
                let off = r.below(24) as usize;
                for (i, c) in f.comps.iter_mut().enumerate() {
                    c.name = if i < FIELD_NAMES.len() { FIELD_NAMES[(off + i) % FIELD_NAMES.len()].to_string() } else { format!("f{i}") };
                    walk(&mut c.ty, lookup, r);
                }
            }
            Type::SequenceOf { elem, .. } | Type::SetOf { elem, .. } => walk(elem, lookup, r),
            Type::Choice { alts, .. } => {
                let off = r.below(24) as usize;
                for (i, a) in alts.iter_mut().enumerate() {
                    a.name = FIELD_NAMES[(off + i) % FIELD_NAMES.len()].to_string();
                    walk(&mut a.ty, lookup, r);
                }
            }
            Type::Enumerated { items, .. } => {
                let off = r.below(24) as usize;
                if items.len() <= FIELD_NAMES.len() {
                    for (i, it) in items.iter_mut().enumerate() {
                        it.0 = FIELD_NAMES[(off + i) % FIELD_NAMES.len()].to_string();
                    }
                }
            }
            _ => {}
        }
    }
    // DEFAULT enum items are referenced by name: collect old->new per enumerated definition first
    let mut enum_maps: Vec<(String, Vec<(String, String)>)> = Vec::new();
    for a in &mut m.body {
        if let Assignment::Type(d) = a {
            let old_items: Option<Vec<String>> = if let Type::Enumerated { items, .. } = &d.ty { Some(items.iter().map(|i| i.0.clone()).collect()) } else { None };
            walk(&mut d.ty, &lookup, r);
            if let (Some(old), Type::Enumerated { items, .. }) = (old_items, &d.ty) {
                enum_maps.push((d.name.clone(), old.into_iter().zip(items.iter().map(|i| i.0.clone())).collect()));
            }
            d.name = lookup(&d.name);
        }
    }
    // fix DEFAULT enum item literals
    let snapshot = m.clone();
    fn fix(t: &mut Type, snapshot: &Module, enum_maps: &[(String, Vec<(String, String)>)], lookup_back: &dyn Fn(&str) -> String) {
        match t {
            Type::Sequence(f) | Type::Set(f) => {
                for c in &mut f.comps {
                    fix(&mut c.ty, snapshot, enum_maps, lookup_back);
                    if let (Presence::Default(d), Type::Ref(n)) = (&mut c.presence, &c.ty) {
                        if let Lit::EnumItem(item) = &d.lit {
                            // (the reference may reach the ENUMERATED through aliases)
                            let mut target = n.clone();
                            for _ in 0..8 {
                                match snapshot.def(&target).map(|x| &x.ty) {
                                    Some(Type::Ref(next)) => target = next.clone(),
                                    _ => break,
                                }
                            }
                            let old_def = lookup_back(&target);
                            if let Some((_, items)) = enum_maps.iter().find(|(dn, _)| *dn == old_def) {
                                if let Some((_, new)) = items.iter().find(|(o, _)| o == item) {
                                    d.lit = Lit::EnumItem(new.clone());
                                }
                            }
                        }
                    }
                }
            }
            Type::SequenceOf { elem, .. } | Type::SetOf { elem, .. } => fix(elem, snapshot, enum_maps, lookup_back),
            Type::Choice { alts, .. } => {
                for a in alts {
                    fix(&mut a.ty, snapshot, enum_maps, lookup_back);
                }
            }
            _ => {}
        }
    }
    let lookup_back = |n: &str| map.iter().find(|(_, b)| b == n).map(|(a, _)| a.clone()).unwrap_or_else(|| n.to_string());
    for a in &mut m.body {
        if let Assignment::Type(d) = a {
            fix(&mut d.ty, &snapshot, &enum_maps, &lookup_back);
        }
    }
}

fn decorate_tags(t: &mut Type, r: &mut Rand) {
    // rarely: the extension marker in front of the first component (legal ASN.1 that asn1rs's
    // model cannot express: it must be rejected, not moved)
    if let Type::Sequence(f) | Type::Set(f) = t {
        if f.root.is_some() && !f.comps.is_empty() && r.chance(4) {
            f.root = Some(0);
        }
    }
    match t {
        Type::Sequence(f) => {
            if f.comps.iter().all(|c| c.tag.is_none()) && r.chance(30) {
                for c in &mut f.comps {
                    if r.chance(50) {
                        c.tag = Some(random_tag(r));
                    }
                }
            }
            for c in &mut f.comps {
                decorate_tags(&mut c.ty, r);
            }
        }
        Type::Set(f) => {
            for c in &mut f.comps {
                decorate_tags(&mut c.ty, r);
            }
        }
        Type::SequenceOf { elem, .. } | Type::SetOf { elem, .. } => decorate_tags(elem, r),
        Type::Choice { alts, .. } => {
            for a in alts {
                decorate_tags(&mut a.ty, r);
            }
        }
        _ => {}
    }
}

/// the sites a value reference can replace
pub enum Site<'a> {
    Num(&'a mut Num, bool),
    Default(&'a mut DefaultVal, Option<Charset>),
}

pub fn sites<'a>(t: &'a mut Type, m: &Module, out: &mut Vec<Site<'a>>) {
    match t {
        Type::Integer { range: Some(r), .. } => {
            if let Some(n) = &mut r.lb {
                out.push(Site::Num(n, false));
            }
            if let Some(n) = &mut r.ub {
                out.push(Site::Num(n, false));
            }
        }
        Type::BitString { size: Some(s), .. } | Type::OctetString { size: Some(s) } | Type::Str { size: Some(s), .. } => size_sites(s, out),
        Type::Sequence(f) | Type::Set(f) => {
            for c in &mut f.comps {
                let cs = match m.resolve(&c.ty) {
                    Type::Str { cs, .. } => Some(*cs),
                    _ => None,
                };
                if let Presence::Default(d) = &mut c.presence {
                    if matches!(d.lit, Lit::Int(_) | Lit::Bool(_) | Lit::Str(_)) {
                        out.push(Site::Default(d, cs));
                    }
                }
                sites(&mut c.ty, m, out);
            }
        }
        Type::SequenceOf { elem, size } | Type::SetOf { elem, size } => {
            if let Some(s) = size {
                size_sites(s, out);
            }
            sites(elem, m, out);
        }
        Type::Choice { alts, .. } => {
            for a in alts {
                sites(&mut a.ty, m, out);
            }
        }
        _ => {}
    }
}

fn size_sites<'a>(s: &'a mut Size, out: &mut Vec<Site<'a>>) {
    if s.fixed {
        // SIZE(n): one number (lb and ub are the same value); keep them in sync through `via` on lb only
        out.push(Site::Num(&mut s.lb, true));
    } else {
        // a literal 0 lower bound is special-cased by the parser; references are resolved later
        out.push(Site::Num(&mut s.lb, true));
        if let Some(u) = &mut s.ub {
            out.push(Site::Num(u, true));
        }
    }
}

/// Replaces a random subset of the literal sites by value references; returns the assignments.
/// `prefix` keeps names unique across modules.
pub fn introduce_references(m: &mut Module, r: &mut Rand, percent: u64, prefix: &str) -> Vec<ValueAssign> {
    let snapshot = m.clone();
    let mut assigns: Vec<ValueAssign> = Vec::new();
    let mut counter = 0usize;
    for a in &mut m.body {
        if let Assignment::Type(d) = a {
            let mut found = Vec::new();
            sites(&mut d.ty, &snapshot, &mut found);
            for site in found {
                if !r.chance(percent) {
                    continue;
                }
                counter += 1;
                let name = format!("{prefix}{}{}", ["val", "limit", "cfg-size", "maxCount", "lower-bound"][counter % 5], counter);
                match site {
                    Site::Num(n, non_negative) => {
                        if n.value < i64::MIN as i128 || n.value > i64::MAX as i128 || (non_negative && n.value < 0) {
                            continue;
                        }
                        n.via = Some(name.clone());
                        assigns.push(ValueAssign { name, ty: ValueType::Integer, lit: Lit::Int(n.value) });
                    }
                    Site::Default(d, cs) => {
                        d.via = Some(name.clone());
                        let ty = match (&d.lit, cs) {
                            (Lit::Int(_), _) => ValueType::Integer,
                            (Lit::Bool(_), _) => ValueType::Boolean,
                            (_, Some(cs)) => ValueType::Str(cs),
                            _ => ValueType::Str(Charset::Utf8),
                        };
                        assigns.push(ValueAssign { name, ty, lit: d.lit.clone() });
                    }
                }
            }
        }
    }
    // SIZE(n) printed from lb only: keep ub numerically equal (it already is)
    assigns
}

pub fn extra_values(r: &mut Rand) -> Vec<ValueAssign> {
    let mut out = Vec::new();
    let n = r.below(4);
    for i in 0..n {
        let name = format!("{}{}", ["unused", "magic-number", "theAnswer", "oct"][i as usize % 4], i);
        let (ty, lit) = match r.below(7) {
            0 => (ValueType::Integer, Lit::Int(-(r.below(100000) as i128))),
            1 => (ValueType::Integer, Lit::Int(r.below(1 << 40) as i128)),
            2 => (ValueType::Boolean, Lit::Bool(r.chance(50))),
            3 => (ValueType::Str(Charset::Utf8), Lit::Str(["abc", "Hello World", "x", "a-b c", "1 2  3"][r.below(5) as usize].to_string())),
            4 => (ValueType::OctetString, Lit::Hex((0..r.below(5)).map(|k| (k * 37 + 11) as u8).collect())),
            5 => (ValueType::BitString, Lit::Bin((0..1 + r.below(12)).map(|k| k % 3 == 0).collect())),
            _ => (ValueType::Integer, Lit::Int(i64::MAX as i128)),
        };
        out.push(ValueAssign { name, ty, lit });
    }
    out
}

pub fn decorate(mut m: Module, salt: u64) -> Module {
    let mut r = Rand(salt | 1);
    rename(&mut m, &mut r);
    m.name = MODULE_NAMES[r.below(8) as usize].to_string();
    if r.chance(40) {
        m.oid = Some(oid(&mut r));
    }
    m.tagging = match r.below(5) {
        0 => Tagging::Explicit,
        1 => Tagging::Implicit,
        2 => Tagging::Unspecified,
        _ => Tagging::Automatic,
    };
    for a in &mut m.body {
        if let Assignment::Type(d) = a {
            if r.chance(25) {
                d.tag = Some(random_tag(&mut r));
            }
            decorate_tags(&mut d.ty, &mut r);
        }
    }
    // imports (only recorded by a single-module parse)
    let n_imp = if r.chance(40) { 1 + r.below(3) } else { 0 };
    for i in 0..n_imp {
        let symbols = (0..1 + r.below(3)).map(|k| format!("{}{}", ["Imported", "other-value", "Ext-Type"][(k % 3) as usize], i * 3 + k)).collect();
        m.imports.push(Import { symbols, from: ["Other-Module", "Base", "Common_Module", "LibModule"][r.below(4) as usize].to_string(), oid: if r.chance(50) { Some(oid(&mut r)) } else { None } });
    }
    // value references
    let mut assigns = introduce_references(&mut m, &mut r, 35, "");
    assigns.extend(extra_values(&mut r));
    for va in assigns {
        // before the first definition, after the last one, or somewhere in between
        let pos = match r.below(3) {
            0 => 0,
            1 => m.body.len(),
            _ => r.below(m.body.len() as u64 + 1) as usize,
        };
        m.body.insert(pos, Assignment::Value(va));
    }
    m
}

pub fn frontend_module_strategy(depth: u32, max_defs: usize) -> BoxedStrategy<Module> {
    (module_strategy(Profile::Roundtrip, "M".into(), depth, max_defs), any::<u64>()).prop_map(|(m, salt)| decorate(m, salt)).boxed()
}
