//! Canonical projection of an abstract module (C07/C12/C13): what the parsed and resolved model
//! must contain. Normalisations are only those asn1rs documents or pins in its tests
//! (DESIGN.md C07): `(0..MAX)`, `(MIN..MAX)`, `(MIN..i64::MAX)` == unconstrained;
//! `SIZE(0..MAX)` == no size; `SIZE(n..n)` == `SIZE(n)`; module names lose a trailing
//! `Module` / `_Module`; a bstring literal is kept as right-aligned octets; value references
//! are replaced by their values (resolution).

use crate::schema::*;
use serde::{Deserialize, Serialize};

#[derive(Clone, Debug, PartialEq, Eq, Serialize, Deserialize)]
pub struct Canon {
    pub name: String,
    pub oid: Option<Vec<OidComp>>,
    pub imports: Vec<Import>,
    pub values: Vec<ValueAssign>,
    pub defs: Vec<Def>,
}

pub fn nice_name(name: &str) -> String {
    let mut n = name.to_string();
    for suffix in ["_Module", "Module"] {
        if n.ends_with(suffix) {
            n.truncate(n.len() - suffix.len());
        }
    }
    n
}

pub fn bits_right_aligned(bits: &[bool]) -> Vec<u8> {
    let mut v = vec![0u8; (bits.len() + 7) / 8];
    for (i, b) in bits.iter().rev().enumerate() {
        if *b {
            let idx = v.len() - 1 - i / 8;
            v[idx] |= 1 << (i % 8);
        }
    }
    v
}

pub fn norm_lit(l: &Lit) -> Lit {
    match l {
        Lit::Bin(b) => Lit::Hex(bits_right_aligned(b)),
        o => o.clone(),
    }
}

fn norm_size(s: &Option<Size>) -> Option<Size> {
    let s = s.as_ref()?;
    let lb = s.lb.value;
    let ub = s.ub.as_ref().map(|u| u.value).filter(|u| *u != i64::MAX as i128);
    if lb == 0 && ub.is_none() && !s.ext {
        return None; // SIZE(0..MAX)
    }
    let fixed = ub == Some(lb);
    Some(Size { lb: Num::lit(lb), ub: ub.map(Num::lit), fixed, ext: s.ext })
}

fn norm_range(r: &Option<Range>) -> Option<Range> {
    let r = r.as_ref()?;
    let lb = r.lb.as_ref().map(|n| n.value);
    let ub = r.ub.as_ref().map(|n| n.value);
    let (lb, ub) = match (lb, ub) {
        (Some(0), None) => (None, None),
        (None, Some(u)) if u == i64::MAX as i128 => (None, None),
        o => o,
    };
    if lb.is_none() && ub.is_none() && !r.ext {
        return None;
    }
    Some(Range { lb: lb.map(Num::lit), ub: ub.map(Num::lit), ext: r.ext })
}

pub fn norm_type(t: &Type) -> Type {
    match t {
        Type::Integer { range, named } => Type::Integer { range: norm_range(range), named: named.clone() },
        Type::BitString { size, named } => Type::BitString { size: norm_size(size), named: named.clone() },
        Type::OctetString { size } => Type::OctetString { size: norm_size(size) },
        Type::Str { cs, size } => Type::Str { cs: *cs, size: norm_size(size) },
        Type::Sequence(f) => Type::Sequence(norm_fields(f)),
        Type::Set(f) => Type::Set(norm_fields(f)),
        Type::SequenceOf { elem, size } => Type::SequenceOf { elem: Box::new(norm_type(elem)), size: norm_size(size) },
        Type::SetOf { elem, size } => Type::SetOf { elem: Box::new(norm_type(elem)), size: norm_size(size) },
        Type::Choice { alts, root } => Type::Choice { alts: alts.iter().map(|a| Alt { name: a.name.clone(), tag: a.tag, ty: norm_type(&a.ty) }).collect(), root: *root },
        o => o.clone(),
    }
}

fn norm_fields(f: &Fields) -> Fields {
    Fields {
        comps: f
            .comps
            .iter()
            .map(|c| Comp {
                name: c.name.clone(),
                tag: c.tag,
                ty: norm_type(&c.ty),
                presence: match &c.presence {
                    Presence::Default(d) => Presence::Default(DefaultVal { lit: norm_lit(&d.lit), via: None }),
                    o => o.clone(),
                },
            })
            .collect(),
        root: f.root,
    }
}

pub fn canon(m: &Module) -> Canon {
    Canon {
        name: nice_name(&m.name),
        oid: m.oid.clone(),
        imports: m.imports.iter().map(|i| Import { symbols: i.symbols.clone(), from: nice_name(&i.from), oid: i.oid.clone() }).collect(),
        values: m.values().map(|v| ValueAssign { name: v.name.clone(), ty: v.ty.clone(), lit: norm_lit(&v.lit) }).collect(),
        defs: m.defs().map(|d| Def { name: d.name.clone(), tag: d.tag, ty: norm_type(&d.ty) }).collect(),
    }
}

/// first difference between two canonical forms, for reports
pub fn diff(a: &Canon, b: &Canon) -> String {
    if a.name != b.name {
        return format!("module name {:?} vs {:?}", a.name, b.name);
    }
    if a.oid != b.oid {
        return format!("module oid {:?} vs {:?}", a.oid, b.oid);
    }
    if a.imports != b.imports {
        return format!("imports {:?} vs {:?}", a.imports, b.imports);
    }
    if a.values.len() != b.values.len() {
        return format!("{} vs {} value assignments", a.values.len(), b.values.len());
    }
    for (x, y) in a.values.iter().zip(&b.values) {
        if x != y {
            return format!("value assignment {:?} vs {:?}", x, y);
        }
    }
    if a.defs.len() != b.defs.len() {
        return format!("{} vs {} definitions ({:?} vs {:?})", a.defs.len(), b.defs.len(), a.defs.iter().map(|d| &d.name).collect::<Vec<_>>(), b.defs.iter().map(|d| &d.name).collect::<Vec<_>>());
    }
    for (x, y) in a.defs.iter().zip(&b.defs) {
        if x != y {
            return format!("definition {}: expected {} {:?} but the model has {} {:?}", x.name, crate::print::type_text(&x.ty), x.tag, crate::print::type_text(&y.ty), y.tag);
        }
    }
    "no difference".into()
}
