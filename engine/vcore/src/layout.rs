//! Token-level layouts (C13): a separator is chosen at every boundary between lexical items.

use crate::print::Tok;
use proptest::prelude::*;

pub const SEP_CHARS: &str = ":;=(){}.,[]'\"";

fn is_text_char(c: char) -> bool {
    !c.is_whitespace() && !SEP_CHARS.contains(c)
}

/// must two adjacent lexical items be separated so that they do not merge into one text token?
pub fn needs_separator(a: &Tok, b: &Tok) -> bool {
    let last = a.text().chars().last();
    let first = b.text().chars().next();
    match (last, first) {
        (Some(x), Some(y)) => {
            (is_text_char(x) && is_text_char(y))
                // "-" "-" would start a comment, "/" "*" a block comment
                || (x == '-' && y == '-')
                || (x == '/' && y == '*')
        }
        _ => false,
    }
}

#[derive(Clone, Debug, PartialEq, Eq, Hash)]
pub enum Sep {
    Empty,
    Space,
    Tab,
    Lf,
    CrLf,
    TwoSpaces,
    SpaceLf,
    /// `-- text` up to the end of the line; bool: blank before the comment
    LineComment(String, bool),
    /// `/* text */`; (blank before, blank after)
    BlockComment(String, bool, bool),
    /// `/* a /* b */ c */`
    NestedComment(String, String, String, bool, bool),
    /// lone carriage return (an in-line blank occupying one column)
    Cr,
    /// a long run of blanks: pushes what follows to columns beyond 255 / 4095 / 65535
    Spaces(usize),
    /// a long run of line breaks: pushes what follows to lines beyond 255 / 65535
    Lines(usize),
}

impl Sep {
    pub fn render(&self) -> String {
        match self {
            Sep::Empty => String::new(),
            Sep::Space => " ".into(),
            Sep::Tab => "\t".into(),
            Sep::Lf => "\n".into(),
            Sep::CrLf => "\r\n".into(),
            Sep::TwoSpaces => "  ".into(),
            Sep::SpaceLf => " \n".into(),
            Sep::LineComment(t, blank) => format!("{}--{}\n", if *blank { " " } else { "" }, t),
            Sep::BlockComment(t, a, b) => format!("{}/*{}*/{}", if *a { " " } else { "" }, t, if *b { " " } else { "" }),
            // (text ending in '*' directly in front of the inner "/*" would read "*/": keep them apart)
            Sep::NestedComment(x, y, z, a, b) => format!("{}/*{}{}/*{}*/{}*/{}", if *a { " " } else { "" }, x, if x.ends_with('*') || x.ends_with('/') { " " } else { "" }, y, z, if *b { " " } else { "" }),
            Sep::Cr => "\r".into(),
            Sep::Spaces(n) => " ".repeat(*n),
            Sep::Lines(n) => "\n".repeat(*n),
        }
    }
    /// does the separator keep two text items apart?
    pub fn separates(&self) -> bool {
        !matches!(self, Sep::Empty)
    }
    pub fn kind(&self) -> &'static str {
        match self {
            Sep::Empty => "empty",
            Sep::Space => "space",
            Sep::Tab => "tab",
            Sep::Lf => "lf",
            Sep::CrLf => "crlf",
            Sep::TwoSpaces => "two-spaces",
            Sep::SpaceLf => "space-lf",
            Sep::LineComment(_, true) => "line-comment",
            Sep::LineComment(_, false) => "line-comment-adjacent",
            Sep::BlockComment(_, false, false) => "block-comment-adjacent",
            Sep::BlockComment(..) => "block-comment",
            Sep::NestedComment(_, _, _, false, false) => "nested-comment-adjacent",
            Sep::NestedComment(..) => "nested-comment",
            Sep::Cr => "cr",
            Sep::Spaces(_) => "long-run-of-blanks",
            Sep::Lines(_) => "long-run-of-line-breaks",
        }
    }
    pub fn is_comment_or_break(&self) -> bool {
        !matches!(self, Sep::Empty | Sep::Space | Sep::Tab | Sep::TwoSpaces | Sep::Cr | Sep::Spaces(_))
    }
}

/// comment text that cannot end the comment early: line comments without "--" and line breaks,
/// block comments without "*/" and "/*"
fn line_comment_text(ascii_only: bool) -> BoxedStrategy<String> {
    let pool: Vec<&'static str> = if ascii_only {
        vec![" c", "", " a comment with words", " x:=1 { } ( ) , . ;", " 'quote' \"dq\"", " - single - dashes -", " / * star slash", "c"]
    } else {
        vec![" c", " \u{e4}\u{f6}\u{fc} \u{20ac}", " \u{1F600} emoji", " x"]
    };
    proptest::sample::select(pool).prop_map(|s| s.to_string()).boxed()
}

fn block_comment_text(ascii_only: bool) -> BoxedStrategy<String> {
    let pool: Vec<&'static str> = if ascii_only {
        // (continuation lines that begin with `--`: the closing `*/` or a nested `/*` then sits on a
        // line that looks like a line comment)
        vec![" c ", "", "c", " -- dashes inside -- ", " * lone star ", " / lone slash ", " 'q' \"dq\" ", " END BEGIN ::= ", " a\n multi\n line ", "*", " ** ", " c\n-- d ", "\n--", " x\n   -- y\n-- z ", "\r\n-- w "]
    } else {
        vec![" \u{e4}\u{20ac} ", " c ", " \u{1F600} "]
    };
    proptest::sample::select(pool).prop_map(|s| s.to_string()).boxed()
}

pub fn sep_strategy(ascii_only: bool) -> BoxedStrategy<Sep> {
    prop_oneof![
        3 => Just(Sep::Empty),
        6 => Just(Sep::Space),
        2 => Just(Sep::Tab),
        3 => Just(Sep::Lf),
        2 => Just(Sep::CrLf),
        1 => Just(Sep::TwoSpaces),
        1 => Just(Sep::SpaceLf),
        1 => Just(Sep::Cr),
        1 => prop_oneof![
            18 => (2..300usize).prop_map(Sep::Spaces),
            12 => (4090..4100usize).prop_map(Sep::Spaces),
            1 => (65530..65540usize).prop_map(Sep::Spaces),
            9 => (250..260usize).prop_map(Sep::Lines),
            1 => (65530..65540usize).prop_map(Sep::Lines),
        ],
        3 => (line_comment_text(ascii_only), any::<bool>()).prop_map(|(t, b)| Sep::LineComment(t, b)),
        4 => (block_comment_text(ascii_only), any::<bool>(), any::<bool>()).prop_map(|(t, a, b)| Sep::BlockComment(t, a, b)),
        2 => (block_comment_text(ascii_only), block_comment_text(ascii_only), block_comment_text(ascii_only), any::<bool>(), any::<bool>()).prop_map(|(x, y, z, a, b)| Sep::NestedComment(x, y, z, a, b)),
    ]
    .boxed()
}

/// start position (line, column; 1-based, columns in characters) of every non-Break item
#[derive(Clone, Debug)]
pub struct Rendered {
    pub text: String,
    pub starts: Vec<(usize, usize)>,
}

/// Renders the items with the chosen separators (`seps[i]` between item i and i+1; items are the
/// non-Break tokens). A separator that would merge two text items is replaced by a space.
pub fn render(items: &[Tok], seps: &[Sep]) -> (Rendered, Vec<Sep>) {
    let mut text = String::new();
    let mut starts = Vec::new();
    let mut used = Vec::new();
    let mut line = 1usize;
    let mut col = 1usize;
    let advance = |s: &str, line: &mut usize, col: &mut usize| {
        let mut chars = s.chars().peekable();
        while let Some(c) = chars.next() {
            if c == '\n' {
                *line += 1;
                *col = 1;
            } else if c == '\r' && chars.peek() == Some(&'\n') {
                // CRLF: the CR does not count, the LF breaks the line
            } else {
                *col += 1;
            }
        }
    };
    for (i, t) in items.iter().enumerate() {
        starts.push((line, col));
        text.push_str(t.text());
        advance(t.text(), &mut line, &mut col);
        if i + 1 < items.len() {
            let mut sep = seps.get(i).cloned().unwrap_or(Sep::Space);
            if needs_separator(t, &items[i + 1]) && !sep.separates() {
                sep = Sep::Space;
            }
            // a line comment swallows the rest of the line: it is always terminated by LF (render does)
            let s = sep.render();
            text.push_str(&s);
            advance(&s, &mut line, &mut col);
            used.push(sep);
        }
    }
    text.push('\n');
    (Rendered { text, starts }, used)
}

pub fn items_of(toks: &[Tok]) -> Vec<Tok> {
    toks.iter().filter(|t| !matches!(t, Tok::Break)).cloned().collect()
}

/// plain whitespace-only layouts for C07 (no comments)
pub fn whitespace_sep_strategy() -> BoxedStrategy<Sep> {
    prop_oneof![3 => Just(Sep::Space), 1 => Just(Sep::Empty), 1 => Just(Sep::Tab), 2 => Just(Sep::Lf), 1 => Just(Sep::CrLf), 1 => Just(Sep::TwoSpaces)].boxed()
}
