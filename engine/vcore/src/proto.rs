//! Independent proto3 mini-parser (the dialect asn1rs emits) with validity checks, and an
//! independent protobuf wire decoder. Shares no code with asn1rs.

use std::collections::BTreeMap;

#[derive(Clone, Debug, PartialEq)]
pub struct PField {
    pub name: String,
    pub ty: String,
    pub number: u64,
    pub repeated: bool,
    pub in_oneof: bool,
}

#[derive(Clone, Debug, PartialEq)]
pub enum PDef {
    /// (oneof names are kept as pseudo fields with number 0 and type "oneof")
    Message { name: String, fields: Vec<PField> },
    Enum { name: String, values: Vec<(String, i64)> },
}

#[derive(Clone, Debug, Default)]
pub struct PFile {
    pub syntax: String,
    pub package: String,
    pub imports: Vec<String>,
    pub defs: Vec<PDef>,
}

fn tokens(text: &str) -> Result<Vec<String>, String> {
    let mut out = Vec::new();
    let mut chars = text.chars().peekable();
    while let Some(c) = chars.next() {
        match c {
            c if c.is_whitespace() => {}
            '/' if chars.peek() == Some(&'/') => {
                for d in chars.by_ref() {
                    if d == '\n' {
                        break;
                    }
                }
            }
            '{' | '}' | ';' | '=' | '<' | '>' | ',' | '(' | ')' | '[' | ']' => out.push(c.to_string()),
            '\'' | '"' => {
                let mut s = String::from("\"");
                loop {
                    match chars.next() {
                        None => return Err("unterminated string".into()),
                        Some(d) if d == c => break,
                        Some(d) => s.push(d),
                    }
                }
                out.push(s);
            }
            c if c.is_alphanumeric() || c == '_' || c == '.' || c == '-' => {
                let mut s = c.to_string();
                while let Some(d) = chars.peek() {
                    if d.is_alphanumeric() || *d == '_' || *d == '.' {
                        s.push(*d);
                        chars.next();
                    } else {
                        break;
                    }
                }
                out.push(s);
            }
            other => return Err(format!("unexpected character {other:?}")),
        }
    }
    Ok(out)
}

fn is_ident(s: &str) -> bool {
    let mut c = s.chars();
    matches!(c.next(), Some(x) if x.is_ascii_alphabetic() || x == '_') && c.all(|x| x.is_ascii_alphanumeric() || x == '_')
}

pub const SCALARS: [&str; 15] = ["double", "float", "int32", "int64", "uint32", "uint64", "sint32", "sint64", "fixed32", "fixed64", "sfixed32", "sfixed64", "bool", "string", "bytes"];

pub fn parse(text: &str) -> Result<PFile, String> {
    let t = tokens(text)?;
    let mut i = 0usize;
    let mut f = PFile::default();
    let expect = |i: &mut usize, what: &str| -> Result<(), String> {
        if t.get(*i).map(|s| s.as_str()) == Some(what) {
            *i += 1;
            Ok(())
        } else {
            Err(format!("expected `{what}` but found `{}` (token {})", t.get(*i).cloned().unwrap_or_else(|| "<end>".into()), *i))
        }
    };
    while i < t.len() {
        match t[i].as_str() {
            "syntax" => {
                i += 1;
                expect(&mut i, "=")?;
                f.syntax = t.get(i).cloned().unwrap_or_default().trim_start_matches('"').to_string();
                i += 1;
                expect(&mut i, ";")?;
            }
            "package" => {
                i += 1;
                f.package = t.get(i).cloned().ok_or("package name")?;
                i += 1;
                expect(&mut i, ";")?;
            }
            "import" => {
                i += 1;
                f.imports.push(t.get(i).cloned().unwrap_or_default().trim_start_matches('"').to_string());
                i += 1;
                expect(&mut i, ";")?;
            }
            "enum" => {
                i += 1;
                let name = t.get(i).cloned().ok_or("enum name")?;
                i += 1;
                expect(&mut i, "{")?;
                let mut values = Vec::new();
                while t.get(i).map(|s| s.as_str()) != Some("}") {
                    let vname = t.get(i).cloned().ok_or("enum value")?;
                    i += 1;
                    expect(&mut i, "=")?;
                    let n: i64 = t.get(i).and_then(|s| s.parse().ok()).ok_or_else(|| format!("enum {name}: number expected for {vname}"))?;
                    i += 1;
                    expect(&mut i, ";")?;
                    values.push((vname, n));
                }
                i += 1;
                f.defs.push(PDef::Enum { name, values });
            }
            "message" => {
                i += 1;
                let name = t.get(i).cloned().ok_or("message name")?;
                i += 1;
                expect(&mut i, "{")?;
                let mut fields = Vec::new();
                let mut in_oneof = false;
                loop {
                    match t.get(i).map(|s| s.as_str()) {
                        None => return Err(format!("message {name}: unexpected end")),
                        Some("}") => {
                            i += 1;
                            if in_oneof {
                                in_oneof = false;
                                // asn1rs emits `};` after a oneof (protoc accepts an empty statement)
                                if t.get(i).map(|s| s.as_str()) == Some(";") {
                                    i += 1;
                                }
                                continue;
                            }
                            break;
                        }
                        Some("oneof") => {
                            if in_oneof {
                                return Err(format!("message {name}: nested oneof"));
                            }
                            i += 1;
                            if !t.get(i).map(|s| is_ident(s)).unwrap_or(false) {
                                return Err(format!("message {name}: oneof name expected"));
                            }
                            fields.push(PField { name: t[i].clone(), ty: "oneof".into(), number: 0, repeated: false, in_oneof: false });
                            i += 1;
                            expect(&mut i, "{")?;
                            in_oneof = true;
                        }
                        Some(_) => {
                            let mut repeated = false;
                            while t.get(i).map(|s| s.as_str()) == Some("repeated") {
                                if repeated {
                                    return Err(format!("message {name}: `repeated repeated` is not valid proto3"));
                                }
                                repeated = true;
                                i += 1;
                            }
                            let ty = t.get(i).cloned().ok_or("field type")?;
                            i += 1;
                            let fname = t.get(i).cloned().ok_or("field name")?;
                            i += 1;
                            expect(&mut i, "=")?;
                            let number: u64 = t.get(i).and_then(|s| s.parse().ok()).ok_or_else(|| format!("message {name}: field number expected for {fname}"))?;
                            i += 1;
                            expect(&mut i, ";")?;
                            fields.push(PField { name: fname, ty, number, repeated, in_oneof });
                        }
                    }
                }
                f.defs.push(PDef::Message { name, fields });
            }
            other => return Err(format!("unexpected top-level token `{other}`")),
        }
    }
    Ok(f)
}

/// proto3 validity rules that do not need other files (imports are trusted to provide unknown types)
pub fn validate(f: &PFile) -> Vec<String> {
    let mut errs = Vec::new();
    if f.syntax != "proto3" {
        errs.push(format!("syntax is `{}`, not proto3", f.syntax));
    }
    if f.package.is_empty() || !f.package.split('.').all(is_ident) {
        errs.push(format!("invalid package name `{}`", f.package));
    }
    let mut names: Vec<&str> = Vec::new();
    let mut enum_value_names: Vec<&str> = Vec::new();
    for d in &f.defs {
        let n = match d {
            PDef::Message { name, .. } | PDef::Enum { name, .. } => name.as_str(),
        };
        if !is_ident(n) {
            errs.push(format!("invalid type name `{n}`"));
        }
        if names.contains(&n) {
            errs.push(format!("type `{n}` defined twice"));
        }
        names.push(n);
    }
    for d in &f.defs {
        match d {
            PDef::Enum { name, values } => {
                if values.is_empty() {
                    errs.push(format!("enum {name} has no values"));
                } else if values[0].1 != 0 {
                    errs.push(format!("enum {name}: the first value must be 0 in proto3"));
                }
                let mut nums = Vec::new();
                for (v, n) in values {
                    if !is_ident(v) {
                        errs.push(format!("enum {name}: invalid value name `{v}`"));
                    }
                    // enum values are siblings of their enum: unique within the package
                    if enum_value_names.contains(&v.as_str()) {
                        errs.push(format!("enum value name `{v}` used twice in the package"));
                    }
                    enum_value_names.push(v);
                    if nums.contains(n) {
                        errs.push(format!("enum {name}: number {n} used twice"));
                    }
                    nums.push(*n);
                }
            }
            PDef::Message { name, fields } => {
                let mut fnames: Vec<&str> = Vec::new();
                let mut nums: Vec<u64> = Vec::new();
                for fl in fields {
                    if !is_ident(&fl.name) {
                        errs.push(format!("message {name}: invalid field name `{}`", fl.name));
                    }
                    // (a oneof's name lives in the same scope as the field names)
                    if fnames.contains(&fl.name.as_str()) {
                        errs.push(format!("message {name}: name `{}` used twice", fl.name));
                    }
                    fnames.push(&fl.name);
                    if fl.ty == "oneof" {
                        continue;
                    }
                    if fl.number < 1 || fl.number > 536_870_911 || (19000..=19999).contains(&fl.number) {
                        errs.push(format!("message {name}: illegal field number {}", fl.number));
                    }
                    if nums.contains(&fl.number) {
                        errs.push(format!("message {name}: field number {} used twice", fl.number));
                    }
                    nums.push(fl.number);
                    if fl.repeated && fl.in_oneof {
                        errs.push(format!("message {name}: `repeated` field `{}` inside a oneof", fl.name));
                    }
                    let known = SCALARS.contains(&fl.ty.as_str()) || names.contains(&fl.ty.as_str()) || (!f.imports.is_empty() && fl.ty.contains('.'));
                    if !known && f.imports.is_empty() {
                        errs.push(format!("message {name}: field `{}` has unknown type `{}`", fl.name, fl.ty));
                    }
                }
            }
        }
    }
    errs
}

/// Validity of a set of .proto files that import each other: every file on its own (`validate`)
/// and every reference to a type that is not defined in the file itself must be the
/// package-qualified name of a type defined in another file of the set, which the file imports
/// (protobuf resolves an unqualified name only in the own package and its parents).
pub fn validate_set(files: &[(String, PFile)]) -> Vec<String> {
    let mut errs = Vec::new();
    let mut global: BTreeMap<String, &str> = BTreeMap::new(); // pkg.Type -> defining file
    for (fname, f) in files {
        for d in &f.defs {
            let n = match d {
                PDef::Message { name, .. } | PDef::Enum { name, .. } => name,
            };
            if global.insert(format!("{}.{}", f.package, n), fname.as_str()).is_some() {
                errs.push(format!("{fname}: type `{}.{}` is defined in two files", f.package, n));
            }
        }
    }
    for (fname, f) in files {
        for e in validate(f) {
            errs.push(format!("{fname}: {e}"));
        }
        for imp in &f.imports {
            let imp = imp.trim_matches('"');
            if !files.iter().any(|(n, _)| n == imp) {
                errs.push(format!("{fname}: imports `{imp}`, which is not a generated file"));
            }
        }
        let local: Vec<&str> = f
            .defs
            .iter()
            .map(|d| match d {
                PDef::Message { name, .. } | PDef::Enum { name, .. } => name.as_str(),
            })
            .collect();
        for d in &f.defs {
            if let PDef::Message { name, fields } = d {
                for fl in fields {
                    if fl.ty == "oneof" || SCALARS.contains(&fl.ty.as_str()) || local.contains(&fl.ty.as_str()) {
                        continue;
                    }
                    let own_qualified = fl.ty.strip_prefix(&format!("{}.", f.package)).map(|t| local.contains(&t)).unwrap_or(false);
                    if own_qualified {
                        continue;
                    }
                    match global.get(fl.ty.trim_start_matches('.')) {
                        Some(def_file) => {
                            if !f.imports.iter().any(|i| i.trim_matches('"') == *def_file) {
                                errs.push(format!("{fname}: message {name}: field `{}` uses `{}` of {def_file} without importing that file", fl.name, fl.ty));
                            }
                        }
                        None => errs.push(format!("{fname}: message {name}: field `{}` has type `{}`, which is not defined in the file nor the qualified name of a type of an imported file", fl.name, fl.ty)),
                    }
                }
            }
        }
    }
    errs
}

// ---------------------------------------------------------------------------------------------
// wire decoder

#[derive(Clone, Debug, PartialEq)]
pub enum Wire {
    Varint(u64),
    Fixed64([u8; 8]),
    Len(Vec<u8>),
    Fixed32([u8; 4]),
}

impl Wire {
    pub fn kind(&self) -> &'static str {
        match self {
            Wire::Varint(_) => "varint",
            Wire::Fixed64(_) => "fixed64",
            Wire::Len(_) => "length-delimited",
            Wire::Fixed32(_) => "fixed32",
        }
    }
}

pub fn read_varint(b: &[u8], pos: &mut usize) -> Result<u64, String> {
    let mut v = 0u64;
    let mut shift = 0u32;
    loop {
        let byte = *b.get(*pos).ok_or("varint: end of input")?;
        *pos += 1;
        if shift >= 64 {
            return Err("varint longer than 10 bytes".into());
        }
        v |= ((byte & 0x7f) as u64) << shift;
        if byte & 0x80 == 0 {
            return Ok(v);
        }
        shift += 7;
    }
}

/// (field number, wire value) in order of appearance
pub fn decode_fields(b: &[u8]) -> Result<Vec<(u64, Wire)>, String> {
    let mut pos = 0usize;
    let mut out = Vec::new();
    while pos < b.len() {
        let key = read_varint(b, &mut pos)?;
        let (number, wt) = (key >> 3, key & 7);
        if number == 0 {
            return Err("field number 0".into());
        }
        let w = match wt {
            0 => Wire::Varint(read_varint(b, &mut pos)?),
            1 => {
                let s = b.get(pos..pos + 8).ok_or("fixed64: end of input")?;
                pos += 8;
                Wire::Fixed64(s.try_into().unwrap())
            }
            2 => {
                let n = read_varint(b, &mut pos)? as usize;
                let s = b.get(pos..pos.checked_add(n).ok_or("length overflow")?).ok_or("length-delimited: end of input")?;
                pos += n;
                Wire::Len(s.to_vec())
            }
            5 => {
                let s = b.get(pos..pos + 4).ok_or("fixed32: end of input")?;
                pos += 4;
                Wire::Fixed32(s.try_into().unwrap())
            }
            other => return Err(format!("unsupported wire type {other}")),
        };
        out.push((number, w));
    }
    Ok(out)
}

pub fn zigzag(v: u64) -> i64 {
    ((v >> 1) as i64) ^ -((v & 1) as i64)
}

pub fn wire_kind_for(ty: &str, is_enum: bool, is_message: bool) -> &'static str {
    if is_message {
        return "length-delimited";
    }
    if is_enum {
        return "varint";
    }
    match ty {
        "int32" | "int64" | "uint32" | "uint64" | "sint32" | "sint64" | "bool" => "varint",
        "fixed64" | "sfixed64" | "double" => "fixed64",
        "fixed32" | "sfixed32" | "float" => "fixed32",
        _ => "length-delimited",
    }
}

pub fn index(f: &PFile) -> BTreeMap<String, PDef> {
    f.defs
        .iter()
        .map(|d| {
            (
                match d {
                    PDef::Message { name, .. } | PDef::Enum { name, .. } => name.clone(),
                },
                d.clone(),
            )
        })
        .collect()
}

#[cfg(test)]
mod tests {
    use super::*;

    #[test]
    fn parses_the_dialect() {
        let f = parse("syntax = 'proto3';\npackage zoo;\n\nenum Color {\n COLOR_RED = 0;\n COLOR_GREEN = 1;\n}\nmessage TopC {\n oneof value {\n bytes n = 1;\n string s = 3;\n };\n}\nmessage Lst { repeated uint64 value = 1; }\n").unwrap();
        assert_eq!(f.defs.len(), 3);
        assert!(validate(&f).is_empty(), "{:?}", validate(&f));
        assert!(parse("syntax = 'proto3'; package p; message M { repeated repeated bool x = 1; }").is_err());
        let g = parse("syntax = 'proto3'; package p; message M { bool x = 1; bool y = 1; }").unwrap();
        assert_eq!(validate(&g).len(), 1);
    }

    #[test]
    fn decodes_wire() {
        let fields = decode_fields(&[0x08, 0x96, 0x01, 0x12, 0x03, b'a', b'b', b'c']).unwrap();
        assert_eq!(fields, vec![(1, Wire::Varint(150)), (2, Wire::Len(b"abc".to_vec()))]);
        assert_eq!(zigzag(1), -1);
        assert_eq!(zigzag(4294967294), 2147483647);
    }
}
