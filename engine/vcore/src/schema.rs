//! Abstract schema (X.680 level) and abstract values, independent of asn1rs.
//! DESIGN.md 3.1 / 3.3.

use serde::{Deserialize, Serialize};

#[derive(Clone, Copy, Debug, PartialEq, Eq, Hash, PartialOrd, Ord, Serialize, Deserialize)]
pub enum TagClass {
    Universal,
    Application,
    Context,
    Private,
}

#[derive(Clone, Copy, Debug, PartialEq, Eq, Hash, PartialOrd, Ord, Serialize, Deserialize)]
pub struct Tag {
    pub class: TagClass,
    pub number: u32,
}

#[derive(Clone, Copy, Debug, PartialEq, Eq, Hash, Serialize, Deserialize)]
pub enum Charset {
    Utf8,
    Ia5,
    Numeric,
    Printable,
    Visible,
}

impl Charset {
    pub fn keyword(self) -> &'static str {
        match self {
            Charset::Utf8 => "UTF8String",
            Charset::Ia5 => "IA5String",
            Charset::Numeric => "NumericString",
            Charset::Printable => "PrintableString",
            Charset::Visible => "VisibleString",
        }
    }
    /// permitted characters (for the known-multiplier types; UTF8: None = any scalar value)
    pub fn alphabet(self) -> Option<Vec<char>> {
        match self {
            Charset::Utf8 => None,
            Charset::Ia5 => Some((0u8..=127).map(|c| c as char).collect()),
            Charset::Numeric => Some(" 0123456789".chars().collect()),
            Charset::Printable => Some(" '()+,-./0123456789:=?ABCDEFGHIJKLMNOPQRSTUVWXYZabcdefghijklmnopqrstuvwxyz".chars().collect()),
            Charset::Visible => Some((32u8..=126).map(|c| c as char).collect()),
        }
    }
    pub fn universal_tag(self) -> u32 {
        match self {
            Charset::Utf8 => 12,
            Charset::Numeric => 18,
            Charset::Printable => 19,
            Charset::Ia5 => 22,
            Charset::Visible => 26,
        }
    }
}

/// A number in a constraint, optionally written as a value reference in the text.
#[derive(Clone, Debug, PartialEq, Eq, Hash, Serialize, Deserialize)]
pub struct Num {
    pub value: i128,
    #[serde(default, skip_serializing_if = "Option::is_none")]
    pub via: Option<String>,
}

impl Num {
    pub fn lit(value: i128) -> Num {
        Num { value, via: None }
    }
}

#[derive(Clone, Debug, PartialEq, Eq, Hash, Serialize, Deserialize)]
pub struct Range {
    /// None = MIN
    pub lb: Option<Num>,
    /// None = MAX
    pub ub: Option<Num>,
    pub ext: bool,
}

#[derive(Clone, Debug, PartialEq, Eq, Hash, Serialize, Deserialize)]
pub struct Size {
    pub lb: Num,
    /// None = MAX
    pub ub: Option<Num>,
    /// printed as SIZE(n) (then lb == ub)
    pub fixed: bool,
    pub ext: bool,
}

impl Size {
    pub fn fixed(n: u64, ext: bool) -> Size {
        Size { lb: Num::lit(n as i128), ub: Some(Num::lit(n as i128)), fixed: true, ext }
    }
    pub fn range(lb: u64, ub: Option<u64>, ext: bool) -> Size {
        Size { lb: Num::lit(lb as i128), ub: ub.map(|u| Num::lit(u as i128)), fixed: false, ext }
    }
    pub fn lb(&self) -> u128 {
        self.lb.value as u128
    }
    pub fn ub(&self) -> Option<u128> {
        self.ub.as_ref().map(|u| u.value as u128)
    }
    pub fn contains(&self, n: usize) -> bool {
        (n as u128) >= self.lb() && self.ub().map(|u| (n as u128) <= u).unwrap_or(true)
    }
}

#[derive(Clone, Debug, PartialEq, Eq, Hash, Serialize, Deserialize)]
pub enum Lit {
    Bool(bool),
    Int(i128),
    Str(String),
    /// hstring / bstring content for OCTET STRING / BIT STRING defaults and value assignments
    Hex(Vec<u8>),
    Bin(Vec<bool>),
    /// an ENUMERATED item, by name
    EnumItem(String),
}

#[derive(Clone, Debug, PartialEq, Eq, Hash, Serialize, Deserialize)]
pub struct DefaultVal {
    pub lit: Lit,
    /// written as a value reference in the text
    #[serde(default, skip_serializing_if = "Option::is_none")]
    pub via: Option<String>,
}

#[derive(Clone, Debug, PartialEq, Eq, Hash, Serialize, Deserialize)]
pub enum Presence {
    Mandatory,
    Optional,
    Default(DefaultVal),
}

#[derive(Clone, Debug, PartialEq, Eq, Hash, Serialize, Deserialize)]
pub struct Comp {
    pub name: String,
    #[serde(default, skip_serializing_if = "Option::is_none")]
    pub tag: Option<Tag>,
    pub ty: Type,
    pub presence: Presence,
}

#[derive(Clone, Debug, PartialEq, Eq, Hash, Serialize, Deserialize)]
pub struct Fields {
    pub comps: Vec<Comp>,
    /// number of components before the extension marker; None = not extensible
    pub root: Option<usize>,
}

#[derive(Clone, Debug, PartialEq, Eq, Hash, Serialize, Deserialize)]
pub struct Alt {
    pub name: String,
    #[serde(default, skip_serializing_if = "Option::is_none")]
    pub tag: Option<Tag>,
    pub ty: Type,
}

#[derive(Clone, Debug, PartialEq, Eq, Hash, Serialize, Deserialize)]
pub enum Type {
    Boolean,
    Null,
    Integer { range: Option<Range>, named: Vec<(String, i64)> },
    Enumerated { items: Vec<(String, Option<i64>)>, root: Option<usize> },
    BitString { size: Option<Size>, named: Vec<(String, u64)> },
    OctetString { size: Option<Size> },
    Str { cs: Charset, size: Option<Size> },
    Sequence(Fields),
    Set(Fields),
    SequenceOf { elem: Box<Type>, size: Option<Size> },
    SetOf { elem: Box<Type>, size: Option<Size> },
    Choice { alts: Vec<Alt>, root: Option<usize> },
    Ref(String),
}

impl Type {
    pub fn int(lb: i128, ub: i128) -> Type {
        Type::Integer { range: Some(Range { lb: Some(Num::lit(lb)), ub: Some(Num::lit(ub)), ext: false }), named: vec![] }
    }
    /// constructed types that asn1rs turns into their own struct/enum (everything else becomes a
    /// transparent one-field wrapper when it is defined at top level)
    pub fn is_own_rust_type(&self) -> bool {
        matches!(self, Type::Sequence(_) | Type::Set(_) | Type::Choice { .. } | Type::Enumerated { .. })
    }
    pub fn kind(&self) -> &'static str {
        match self {
            Type::Boolean => "BOOLEAN",
            Type::Null => "NULL",
            Type::Integer { .. } => "INTEGER",
            Type::Enumerated { .. } => "ENUMERATED",
            Type::BitString { .. } => "BIT STRING",
            Type::OctetString { .. } => "OCTET STRING",
            Type::Str { cs, .. } => cs.keyword(),
            Type::Sequence(_) => "SEQUENCE",
            Type::Set(_) => "SET",
            Type::SequenceOf { .. } => "SEQUENCE OF",
            Type::SetOf { .. } => "SET OF",
            Type::Choice { .. } => "CHOICE",
            Type::Ref(_) => "reference",
        }
    }
}

#[derive(Clone, Debug, PartialEq, Eq, Hash, Serialize, Deserialize)]
pub struct Def {
    pub name: String,
    #[serde(default, skip_serializing_if = "Option::is_none")]
    pub tag: Option<Tag>,
    pub ty: Type,
}

#[derive(Clone, Debug, PartialEq, Eq, Hash, Serialize, Deserialize)]
pub enum ValueType {
    Integer,
    Boolean,
    Str(Charset),
    OctetString,
    BitString,
    /// integer typed through a reference to a type definition (e.g. `max MyInt ::= 5`)
    Named(String),
}

#[derive(Clone, Debug, PartialEq, Eq, Hash, Serialize, Deserialize)]
pub struct ValueAssign {
    pub name: String,
    pub ty: ValueType,
    pub lit: Lit,
}

#[derive(Clone, Debug, PartialEq, Eq, Hash, Serialize, Deserialize)]
pub struct OidComp {
    #[serde(default, skip_serializing_if = "Option::is_none")]
    pub name: Option<String>,
    #[serde(default, skip_serializing_if = "Option::is_none")]
    pub number: Option<u64>,
}

#[derive(Clone, Debug, PartialEq, Eq, Hash, Serialize, Deserialize)]
pub struct Import {
    pub symbols: Vec<String>,
    pub from: String,
    #[serde(default, skip_serializing_if = "Option::is_none")]
    pub oid: Option<Vec<OidComp>>,
}

#[derive(Clone, Copy, Debug, PartialEq, Eq, Hash, Serialize, Deserialize)]
pub enum Tagging {
    Automatic,
    Explicit,
    Implicit,
    Unspecified,
}

/// An assignment in textual order
#[derive(Clone, Debug, PartialEq, Eq, Hash, Serialize, Deserialize)]
pub enum Assignment {
    Type(Def),
    Value(ValueAssign),
}

#[derive(Clone, Debug, PartialEq, Eq, Hash, Serialize, Deserialize)]
pub struct Module {
    pub name: String,
    #[serde(default, skip_serializing_if = "Option::is_none")]
    pub oid: Option<Vec<OidComp>>,
    pub tagging: Tagging,
    pub imports: Vec<Import>,
    pub body: Vec<Assignment>,
}

impl Module {
    pub fn simple(name: &str, defs: Vec<Def>) -> Module {
        Module { name: name.to_string(), oid: None, tagging: Tagging::Automatic, imports: vec![], body: defs.into_iter().map(Assignment::Type).collect() }
    }
    pub fn defs(&self) -> impl Iterator<Item = &Def> {
        self.body.iter().filter_map(|a| match a {
            Assignment::Type(d) => Some(d),
            _ => None,
        })
    }
    pub fn values(&self) -> impl Iterator<Item = &ValueAssign> {
        self.body.iter().filter_map(|a| match a {
            Assignment::Value(d) => Some(d),
            _ => None,
        })
    }
    pub fn def(&self, name: &str) -> Option<&Def> {
        self.defs().find(|d| d.name == name)
    }
    /// follows references until a non-reference type is reached
    pub fn resolve<'a>(&'a self, mut ty: &'a Type) -> &'a Type {
        let mut guard = 0;
        while let Type::Ref(n) = ty {
            ty = &self.def(n).unwrap_or_else(|| panic!("unknown type reference {n}")).ty;
            guard += 1;
            assert!(guard < 64, "reference cycle");
        }
        ty
    }
}

// ---------------------------------------------------------------------------------------------
// values

#[derive(Clone, Debug, PartialEq, Eq, Hash, Serialize, Deserialize)]
pub enum Value {
    Bool(bool),
    Null,
    Int(i128),
    /// index into the textual item list
    Enum(usize),
    Bits(Vec<bool>),
    Bytes(Vec<u8>),
    Str(String),
    /// one slot per component in textual order; None = absent (OPTIONAL / extension addition).
    /// A top-level definition of a non-constructed type is a one-slot Seq (asn1rs's transparent
    /// wrapper struct); the reference codec looks through it.
    Seq(Vec<Option<Value>>),
    List(Vec<Value>),
    /// index into the textual alternative list
    Choice(usize, Box<Value>),
}

impl Value {
    pub fn wrap(v: Value) -> Value {
        Value::Seq(vec![Some(v)])
    }
    /// short rendering for evidence samples (long strings/lists are abbreviated)
    pub fn brief(&self) -> String {
        match self {
            Value::Bool(b) => b.to_string(),
            Value::Null => "NULL".into(),
            Value::Int(i) => i.to_string(),
            Value::Enum(i) => format!("item#{i}"),
            Value::Bits(b) => {
                if b.len() <= 32 {
                    format!("'{}'B", crate::bitmodel::bitstr(b))
                } else {
                    format!("'{}…'B({} bits)", crate::bitmodel::bitstr(&b[..32]), b.len())
                }
            }
            Value::Bytes(b) => {
                if b.len() <= 16 {
                    format!("'{}'H", crate::harness::hex(b))
                } else {
                    format!("'{}…'H({} octets)", crate::harness::hex(&b[..16]), b.len())
                }
            }
            Value::Str(s) => {
                let n = s.chars().count();
                if n <= 24 {
                    format!("{s:?}")
                } else {
                    format!("{:?}…({n} chars)", s.chars().take(24).collect::<String>())
                }
            }
            Value::Seq(f) => format!("{{{}}}", f.iter().map(|s| s.as_ref().map(|v| v.brief()).unwrap_or_else(|| "-".into())).collect::<Vec<_>>().join(", ")),
            Value::List(l) => {
                if l.len() <= 6 {
                    format!("[{}]", l.iter().map(|v| v.brief()).collect::<Vec<_>>().join(", "))
                } else {
                    format!("[{}, …({} elements)]", l.iter().take(4).map(|v| v.brief()).collect::<Vec<_>>().join(", "), l.len())
                }
            }
            Value::Choice(i, v) => format!("alt#{i}:{}", v.brief()),
        }
    }
}
