//! Shared plumbing of every check: context (property, tier, seed), deterministic proptest
//! runners, evidence files, violation/replay files, the known-findings file.
//!
//! Exit codes (DESIGN.md 2.4): 0 held, 1 violation, 2 infrastructure problem.

use proptest::test_runner::{Config, RngAlgorithm, RngSeed, TestRng, TestRunner};
use serde_json::{json, Map, Value as J};
use std::cell::RefCell;
use std::collections::hash_map::DefaultHasher;
use std::collections::{BTreeMap, HashSet};
use std::hash::{Hash, Hasher};
use std::path::PathBuf;
use std::sync::Mutex;
use std::time::Instant;

#[derive(Clone, Copy, Debug, PartialEq, Eq)]
pub enum Tier {
    Quick,
    Thorough,
}

impl Tier {
    pub fn as_str(self) -> &'static str {
        match self {
            Tier::Quick => "quick",
            Tier::Thorough => "thorough",
        }
    }
    /// pick by tier
    pub fn pick<T>(self, quick: T, thorough: T) -> T {
        match self {
            Tier::Quick => quick,
            Tier::Thorough => thorough,
        }
    }
}

pub fn verif_dir() -> PathBuf {
    PathBuf::from(std::env::var("VERIF_DIR").unwrap_or_else(|_| "/verif".to_string()))
}

#[derive(Clone, Debug)]
pub struct Ctx {
    pub prop: String,
    pub tier: Tier,
    pub seed: u64,
    pub replay: Option<PathBuf>,
    /// when set (mutation self-test), evidence/replay files go below this directory instead
    pub out_dir: PathBuf,
    /// (index, count) when this process is one of the worker processes of a check
    pub worker: Option<(u64, u64)>,
}

impl Ctx {
    /// args: <PROP> <quick|thorough> | <PROP> --replay <file>
    pub fn from_args(args: &[String]) -> Ctx {
        if args.is_empty() {
            eprintln!("usage: <bin> <PROPERTY> <quick|thorough> | <PROPERTY> --replay <file>");
            std::process::exit(2);
        }
        let prop = args[0].clone();
        let mut tier = Tier::Quick;
        let mut replay = None;
        let mut i = 1;
        while i < args.len() {
            match args[i].as_str() {
                "quick" => tier = Tier::Quick,
                "thorough" => tier = Tier::Thorough,
                "--replay" => {
                    i += 1;
                    replay = Some(PathBuf::from(&args[i]));
                }
                other => {
                    eprintln!("unknown argument {other}");
                    std::process::exit(2);
                }
            }
            i += 1;
        }
        if let Ok(t) = std::env::var("VERIF_TIER") {
            if !t.is_empty() && t != tier.as_str() && replay.is_none() {
                eprintln!("VERIF_TIER={t} disagrees with tier argument {}", tier.as_str());
                std::process::exit(2);
            }
        }
        let seed = std::env::var("VERIF_SEED")
            .ok()
            .and_then(|s| s.trim().parse::<i128>().ok())
            .map(|v| v as u64)
            .unwrap_or(1);
        let out_dir = std::env::var("VERIF_OUT")
            .map(PathBuf::from)
            .unwrap_or_else(|_| verif_dir());
        let worker = std::env::var("VERIF_WORKER").ok().and_then(|w| {
            let mut it = w.split('/');
            Some((it.next()?.parse().ok()?, it.next()?.parse().ok()?))
        });
        Ctx {
            prop,
            tier,
            seed,
            replay,
            out_dir,
            worker,
        }
    }

    /// Of `total` shards of some phase, the ones this process has to execute (all of them when
    /// the check runs in a single process).
    pub fn my_shards(&self, total: u64) -> Vec<u64> {
        match self.worker {
            None => (0..total).collect(),
            Some((i, n)) => (0..total).filter(|s| s % n == i).collect(),
        }
    }

    /// A deterministic proptest runner for (seed, property, purpose, shard).
    pub fn runner(&self, purpose: &str, shard: u64, cases: u32) -> TestRunner {
        let cfg = Config {
            cases,
            failure_persistence: None,
            max_shrink_iters: 4096,
            max_global_rejects: 1 << 20,
            max_local_rejects: 1 << 20,
            rng_seed: RngSeed::Fixed(self.derive(purpose, shard)),
            ..Config::default()
        };
        let rng = self.rng(purpose, shard);
        TestRunner::new_with_rng(cfg, rng)
    }

    pub fn derive(&self, purpose: &str, shard: u64) -> u64 {
        let mut h = DefaultHasher::new();
        (self.seed, &self.prop, purpose, shard).hash(&mut h);
        h.finish()
    }

    pub fn rng(&self, purpose: &str, shard: u64) -> TestRng {
        let mut seed = [0u8; 32];
        for k in 0..4u64 {
            let mut h = DefaultHasher::new();
            (self.seed, &self.prop, purpose, shard, k).hash(&mut h);
            seed[(k as usize) * 8..(k as usize + 1) * 8].copy_from_slice(&h.finish().to_le_bytes());
        }
        TestRng::from_seed(RngAlgorithm::ChaCha, &seed)
    }
}

pub fn hash_of<T: Hash>(t: &T) -> u64 {
    let mut h = DefaultHasher::new();
    t.hash(&mut h);
    h.finish()
}

pub fn hex(bytes: &[u8]) -> String {
    let mut s = String::with_capacity(bytes.len() * 2);
    for b in bytes {
        s.push_str(&format!("{b:02x}"));
    }
    s
}

pub fn unhex(s: &str) -> Vec<u8> {
    let s: Vec<u8> = s.bytes().filter(|b| b.is_ascii_hexdigit()).collect();
    s.chunks(2)
        .map(|c| u8::from_str_radix(std::str::from_utf8(c).unwrap(), 16).unwrap())
        .collect()
}

// ---------------------------------------------------------------------------------------------
// panic capture

thread_local! {
    static LAST_PANIC: RefCell<Option<String>> = const { RefCell::new(None) };
}

/// Installs a silent panic hook that remembers the message (and location) per thread.
pub fn install_quiet_panic_hook() {
    std::panic::set_hook(Box::new(|info| {
        let msg = info.to_string();
        LAST_PANIC.with(|l| *l.borrow_mut() = Some(msg));
    }));
}

/// Runs `f`, turning a panic into `Err(message)`.
pub fn catch<T>(f: impl FnOnce() -> T) -> Result<T, String> {
    LAST_PANIC.with(|l| *l.borrow_mut() = None);
    match std::panic::catch_unwind(std::panic::AssertUnwindSafe(f)) {
        Ok(v) => Ok(v),
        Err(p) => {
            let from_hook = LAST_PANIC.with(|l| l.borrow_mut().take());
            let msg = from_hook.unwrap_or_else(|| {
                if let Some(s) = p.downcast_ref::<&str>() {
                    s.to_string()
                } else if let Some(s) = p.downcast_ref::<String>() {
                    s.clone()
                } else {
                    "panic".to_string()
                }
            });
            Err(msg)
        }
    }
}

// ---------------------------------------------------------------------------------------------
// known findings

#[derive(Clone, Debug)]
pub struct Finding {
    pub prop: String,
    pub key: String,
    pub text: String,
    /// recorded failing input, relative to the verification directory
    pub replay: Option<PathBuf>,
}

#[derive(Clone, Debug, Default)]
pub struct KnownFindings {
    pub open: Vec<Finding>,
}

impl KnownFindings {
    /// Lines: `finding: property=<ID> key=<key> :: <what fails>`; `fixed: …` lines suppress nothing.
    pub fn load() -> KnownFindings {
        let path = verif_dir().join("KNOWN_FINDINGS.txt");
        let mut open = Vec::new();
        if let Ok(text) = std::fs::read_to_string(path) {
            for line in text.lines() {
                let line = line.trim();
                if let Some(rest) = line.strip_prefix("finding:") {
                    let (head, text) = match rest.split_once("::") {
                        Some((h, t)) => (h, t.trim().to_string()),
                        None => (rest, String::new()),
                    };
                    let mut prop = String::new();
                    let mut key = String::new();
                    let mut replay = None;
                    for tok in head.split_whitespace() {
                        if let Some(v) = tok.strip_prefix("property=") {
                            prop = v.to_string();
                        } else if let Some(v) = tok.strip_prefix("key=") {
                            key = v.to_string();
                        } else if let Some(v) = tok.strip_prefix("replay=") {
                            replay = Some(verif_dir().join(v));
                        }
                    }
                    if !prop.is_empty() && !key.is_empty() {
                        open.push(Finding { prop, key, text, replay });
                    }
                }
            }
        }
        KnownFindings { open }
    }

    pub fn get(&self, prop: &str, key: &str) -> Option<&Finding> {
        self.open.iter().find(|f| f.prop == prop && f.key == key)
    }

    pub fn is_open(&self, prop: &str, key: &str) -> bool {
        self.get(prop, key).is_some()
    }
    /// open under any property
    pub fn any_open(&self, key: &str) -> bool {
        self.open.iter().any(|f| f.key == key)
    }
}

// ---------------------------------------------------------------------------------------------
// evidence + violations

pub struct Report {
    pub ctx: Ctx,
    start: Instant,
    inner: Mutex<Inner>,
    pub known: KnownFindings,
}

struct Inner {
    evaluations: u64,
    distinct: HashSet<u64>,
    rule: String,
    samples: Vec<J>,
    sample_cap: usize,
    classes: BTreeMap<String, u64>,
    extra: Map<String, J>,
    assumptions: Vec<String>,
    violations: Vec<(String, PathBuf)>,
    violation_what: Vec<String>,
    violation_keys: HashSet<String>,
    known_hits: BTreeMap<String, (String, u64)>,
    exhaustive: Vec<String>,
    infra: Vec<String>,
}

pub const MAX_VIOLATIONS: usize = 5;

impl Report {
    pub fn new(ctx: Ctx, rule: &str) -> Report {
        Report {
            ctx,
            start: Instant::now(),
            known: KnownFindings::load(),
            inner: Mutex::new(Inner {
                evaluations: 0,
                distinct: HashSet::new(),
                rule: rule.to_string(),
                samples: Vec::new(),
                sample_cap: 8,
                classes: BTreeMap::new(),
                extra: Map::new(),
                assumptions: Vec::new(),
                violations: Vec::new(),
                violation_what: Vec::new(),
                violation_keys: HashSet::new(),
                known_hits: BTreeMap::new(),
                exhaustive: Vec::new(),
                infra: Vec::new(),
            }),
        }
    }

    pub fn eval(&self, n: u64) {
        self.inner.lock().unwrap().evaluations += n;
    }
    /// counts a non-trivial case under its distinctness hash
    pub fn nontrivial(&self, h: u64) {
        self.inner.lock().unwrap().distinct.insert(h);
    }
    pub fn class(&self, name: &str, n: u64) {
        *self
            .inner
            .lock()
            .unwrap()
            .classes
            .entry(name.to_string())
            .or_insert(0) += n;
    }
    pub fn class_count(&self, name: &str) -> u64 {
        *self.inner.lock().unwrap().classes.get(name).unwrap_or(&0)
    }
    pub fn merge_local(&self, l: &mut Local) {
        let mut i = self.inner.lock().unwrap();
        i.evaluations += l.evaluations;
        l.evaluations = 0;
        for h in l.distinct.drain() {
            i.distinct.insert(h);
        }
        for (k, v) in std::mem::take(&mut l.classes) {
            *i.classes.entry(k).or_insert(0) += v;
        }
        for s in l.samples.drain(..) {
            if i.samples.len() < i.sample_cap {
                i.samples.push(s);
            }
        }
    }
    pub fn sample(&self, s: J) {
        let mut i = self.inner.lock().unwrap();
        if i.samples.len() < i.sample_cap {
            i.samples.push(s);
        }
    }
    pub fn want_sample(&self) -> bool {
        let i = self.inner.lock().unwrap();
        i.samples.len() < i.sample_cap
    }
    pub fn set_sample_cap(&self, n: usize) {
        self.inner.lock().unwrap().sample_cap = n;
    }
    pub fn extra(&self, key: &str, v: J) {
        self.inner.lock().unwrap().extra.insert(key.to_string(), v);
    }
    pub fn assumption(&self, s: &str) {
        self.inner.lock().unwrap().assumptions.push(s.to_string());
    }
    pub fn exhaustive(&self, s: &str) {
        self.inner.lock().unwrap().exhaustive.push(s.to_string());
    }
    pub fn infra(&self, s: &str) {
        eprintln!("INFRA: {s}");
        self.inner.lock().unwrap().infra.push(s.to_string());
    }
    pub fn violation_count(&self) -> usize {
        self.inner.lock().unwrap().violations.len()
    }
    pub fn too_many_violations(&self) -> bool {
        self.violation_count() >= MAX_VIOLATIONS
    }

    /// A case that fails. `key` identifies the *root cause class* (used to de-duplicate within the
    /// run and to match entries of KNOWN_FINDINGS.txt); `detail` is written to the replay file.
    /// Returns true if it was counted as a new violation (false: known finding or duplicate).
    pub fn fail(&self, key: &str, what: &str, detail: J) -> bool {
        // Known findings suppress nothing here: their regions are excluded from generation by
        // construction and their recorded inputs are replayed by `run_probes`.
        let mut i = self.inner.lock().unwrap();
        if !i.violation_keys.insert(key.to_string()) {
            return false;
        }
        if i.violations.len() >= MAX_VIOLATIONS {
            return false;
        }
        let dir = self.ctx.out_dir.join("replay").join(&self.ctx.prop);
        let _ = std::fs::create_dir_all(&dir);
        let body = json!({
            "property": self.ctx.prop,
            "key": key,
            "what": what,
            "seed": self.ctx.seed,
            "tier": self.ctx.tier.as_str(),
            "case": detail,
        });
        let text = serde_json::to_string_pretty(&body).unwrap();
        let name = format!("{:016x}.json", hash_of(&(key, &text)));
        let path = dir.join(name);
        let _ = std::fs::write(&path, text);
        if self.ctx.worker.is_none() {
            println!("FAIL[{}] {}: {}", self.ctx.prop, key, what);
            println!(
                "VIOLATION property={} replay={}",
                self.ctx.prop,
                path.display()
            );
        }
        i.violations.push((key.to_string(), path));
        i.violation_what.push(what.to_string());
        true
    }

    /// Replays the recorded input of every open known finding of this property through `replay`
    /// (the same function `--replay` uses). Still failing: a KNOWN-FINDING line is printed by
    /// `finish`; passing: a note (the entry can be turned into a `fixed:` line).
    pub fn run_probes(&self, replay: &dyn Fn(&J) -> Result<(), (String, String)>) {
        if self.ctx.worker.is_some() || self.ctx.replay.is_some() {
            return;
        }
        for f in self.known.open.iter().filter(|f| f.prop == self.ctx.prop) {
            let Some(path) = &f.replay else { continue };
            let j = read_replay(path);
            // (two-part checks: a probe belongs to the part that recorded it)
            if let (Some(p), Ok(mine)) = (j["case"]["part"].as_str(), std::env::var("VERIF_EVIDENCE_PART")) {
                if p != mine {
                    continue;
                }
            }
            match replay(&j["case"]) {
                Err(_) => self.known_probe_hit(&f.key),
                Ok(()) => println!("NOTE: known finding property={} key={} no longer reproduces on this tree", f.prop, f.key),
            }
        }
    }

    /// Records that the recorded input of a known finding still fails (probe).
    pub fn known_probe_hit(&self, key: &str) {
        if let Some(f) = self.known.get(&self.ctx.prop, key) {
            let mut i = self.inner.lock().unwrap();
            let e = i
                .known_hits
                .entry(key.to_string())
                .or_insert_with(|| (f.text.clone(), 0));
            e.1 += 1;
        }
    }

    /// Writes the evidence file, prints KNOWN-FINDING lines and the summary, returns the exit code.
    pub fn finish(&self) -> i32 {
        let i = self.inner.lock().unwrap();
        let wall = self.start.elapsed().as_secs_f64();
        for (key, (text, n)) in &i.known_hits {
            let _ = n;
            println!("KNOWN-FINDING: property={} key={} {}", self.ctx.prop, key, text);
        }
        let mut coverage = Map::new();
        coverage.insert("evaluations".into(), json!(i.evaluations));
        coverage.insert("distinct_nontrivial".into(), json!(i.distinct.len()));
        coverage.insert("rule".into(), json!(i.rule));
        coverage.insert("samples".into(), J::Array(i.samples.clone()));
        coverage.insert("classes".into(), json!(i.classes));
        if !i.exhaustive.is_empty() {
            coverage.insert("exhaustive_subspaces".into(), json!(i.exhaustive));
        }
        coverage.insert(
            "known_findings_hit".into(),
            json!(i
                .known_hits
                .iter()
                .map(|(k, (_, n))| (k.clone(), *n))
                .collect::<BTreeMap<_, _>>()),
        );
        for (k, v) in &i.extra {
            coverage.insert(k.clone(), v.clone());
        }
        let ev = json!({
            "property_id": self.ctx.prop,
            "tier": self.ctx.tier.as_str(),
            "seed": self.ctx.seed as i64,
            "level": "exploration",
            "coverage": J::Object(coverage),
            "assumptions": i.assumptions,
            "wall_s": (wall * 1000.0).round() / 1000.0,
            "violations": i.violations.len(),
        });
        if self.ctx.replay.is_none() {
            let dir = self.ctx.out_dir.join("evidence");
            let _ = std::fs::create_dir_all(&dir);
            // a check made of two engines writes parts that the driver merges (tools/merge_evidence.py)
            let path = match std::env::var("VERIF_EVIDENCE_PART") {
                Ok(part) if !part.is_empty() => dir.join(format!("{}.part-{}.json", self.ctx.prop, part)),
                _ => dir.join(format!("{}.json", self.ctx.prop)),
            };
            if let Err(e) = std::fs::write(&path, serde_json::to_string_pretty(&ev).unwrap()) {
                eprintln!("cannot write evidence {}: {e}", path.display());
                return 2;
            }
        }
        println!(
            "SUMMARY property={} tier={} seed={} evaluations={} distinct_nontrivial={} violations={} known={} wall_s={:.1}",
            self.ctx.prop,
            self.ctx.tier.as_str(),
            self.ctx.seed,
            i.evaluations,
            i.distinct.len(),
            i.violations.len(),
            i.known_hits.len(),
            wall
        );
        if !i.violations.is_empty() {
            1
        } else if !i.infra.is_empty() {
            2
        } else {
            0
        }
    }
}

/// Thread-local accumulation (merged into the Report once per shard) to keep lock traffic low.
#[derive(Default)]
pub struct Local {
    pub evaluations: u64,
    pub distinct: HashSet<u64>,
    pub classes: BTreeMap<String, u64>,
    pub samples: Vec<J>,
}

impl Local {
    pub fn eval(&mut self) {
        self.evaluations += 1;
    }
    pub fn nontrivial(&mut self, h: u64) {
        self.distinct.insert(h);
    }
    pub fn class(&mut self, name: &str) {
        *self.classes.entry(name.to_string()).or_insert(0) += 1;
    }
    pub fn class_n(&mut self, name: &str, n: u64) {
        *self.classes.entry(name.to_string()).or_insert(0) += n;
    }
    pub fn sample(&mut self, s: J) {
        if self.samples.len() < 3 {
            self.samples.push(s);
        }
    }
}

pub fn read_replay(path: &std::path::Path) -> J {
    let text = std::fs::read_to_string(path).unwrap_or_else(|e| {
        eprintln!("cannot read replay file {}: {e}", path.display());
        std::process::exit(2);
    });
    serde_json::from_str(&text).unwrap_or_else(|e| {
        eprintln!("cannot parse replay file {}: {e}", path.display());
        std::process::exit(2);
    })
}

// ---------------------------------------------------------------------------------------------
// worker processes
//
// asn1rs builds a `Backtrace` in many error paths and the backtrace crate serialises stack walks
// behind a process-wide lock, so error-heavy checks do not scale over threads. Checks therefore
// run their body in N worker *processes* (the same executable, env VERIF_WORKER=i/N); each worker
// executes its share of every phase (`Ctx::my_shards`) and dumps its partial report; the parent
// merges the dumps, prints the protocol lines and writes the evidence file. A worker that dies
// (abort, stack overflow, OOM, watchdog) is reported as an infrastructure problem (exit 2) unless
// the check handles it itself.

impl Report {
    fn dump_path(dir: &std::path::Path, i: u64) -> (PathBuf, PathBuf) {
        (dir.join(format!("w{i}.json")), dir.join(format!("w{i}.hashes")))
    }

    /// worker side: write the partial report
    pub fn dump_worker(&self, dir: &std::path::Path) {
        let (i, _) = self.ctx.worker.expect("worker");
        let (jp, hp) = Self::dump_path(dir, i);
        let inner = self.inner.lock().unwrap();
        let mut bytes = Vec::with_capacity(inner.distinct.len() * 8);
        for h in &inner.distinct {
            bytes.extend_from_slice(&h.to_le_bytes());
        }
        std::fs::write(&hp, bytes).expect("write hashes");
        let j = json!({
            "evaluations": inner.evaluations,
            "samples": inner.samples,
            "classes": inner.classes,
            "extra": J::Object(inner.extra.clone()),
            "exhaustive": inner.exhaustive,
            "infra": inner.infra,
            "violations": inner.violations.iter().zip(inner.violation_what.iter()).map(|((k, p), w)| json!({"key": k, "path": p.to_string_lossy(), "what": w})).collect::<Vec<_>>(),
            "known_hits": inner.known_hits.iter().map(|(k, (t, n))| json!({"key": k, "text": t, "n": n})).collect::<Vec<_>>(),
        });
        std::fs::write(&jp, serde_json::to_string(&j).unwrap()).expect("write dump");
    }

    /// parent side: merge one worker's dump
    fn merge_dump(&self, dir: &std::path::Path, i: u64) -> Result<(), String> {
        let (jp, hp) = Self::dump_path(dir, i);
        let text = std::fs::read_to_string(&jp).map_err(|e| format!("worker {i}: no dump ({e})"))?;
        let j: J = serde_json::from_str(&text).map_err(|e| format!("worker {i}: bad dump ({e})"))?;
        let hashes = std::fs::read(&hp).map_err(|e| format!("worker {i}: no hashes ({e})"))?;
        let mut inner = self.inner.lock().unwrap();
        inner.evaluations += j["evaluations"].as_u64().unwrap_or(0);
        for c in hashes.chunks_exact(8) {
            inner.distinct.insert(u64::from_le_bytes(c.try_into().unwrap()));
        }
        if let Some(m) = j["classes"].as_object() {
            for (k, v) in m {
                *inner.classes.entry(k.clone()).or_insert(0) += v.as_u64().unwrap_or(0);
            }
        }
        if let Some(a) = j["samples"].as_array() {
            // interleave: take at most 2 from each worker so that samples come from several shards
            for sm in a.iter().take(2) {
                if inner.samples.len() < inner.sample_cap {
                    inner.samples.push(sm.clone());
                }
            }
        }
        if let Some(m) = j["extra"].as_object() {
            for (k, v) in m {
                // numeric extras are summed, everything else: first writer wins
                match (inner.extra.get(k).and_then(|x| x.as_u64()), v.as_u64()) {
                    (Some(a), Some(b)) => {
                        inner.extra.insert(k.clone(), json!(a + b));
                    }
                    _ => {
                        inner.extra.entry(k.clone()).or_insert(v.clone());
                    }
                }
            }
        }
        if let Some(a) = j["exhaustive"].as_array() {
            for e in a {
                let e = e.as_str().unwrap_or("").to_string();
                if !inner.exhaustive.contains(&e) {
                    inner.exhaustive.push(e);
                }
            }
        }
        if let Some(a) = j["infra"].as_array() {
            for e in a {
                inner.infra.push(format!("worker {i}: {}", e.as_str().unwrap_or("")));
            }
        }
        if let Some(a) = j["known_hits"].as_array() {
            for e in a {
                let k = e["key"].as_str().unwrap_or("").to_string();
                let t = e["text"].as_str().unwrap_or("").to_string();
                let n = e["n"].as_u64().unwrap_or(0);
                inner.known_hits.entry(k).or_insert((t, 0)).1 += n;
            }
        }
        if let Some(a) = j["violations"].as_array() {
            for e in a {
                let k = e["key"].as_str().unwrap_or("").to_string();
                let p = PathBuf::from(e["path"].as_str().unwrap_or(""));
                let w = e["what"].as_str().unwrap_or("").to_string();
                if inner.violations.len() < MAX_VIOLATIONS && inner.violation_keys.insert(k.clone()) {
                    println!("FAIL[{}] {}: {}", self.ctx.prop, k, w);
                    println!("VIOLATION property={} replay={}", self.ctx.prop, p.display());
                    inner.violations.push((k, p));
                    inner.violation_what.push(w);
                } else if !inner.violations.iter().any(|(_, kept)| *kept == p) {
                    let _ = std::fs::remove_file(&p);
                }
            }
        }
        Ok(())
    }
}

pub struct WorkerOutcome {
    pub index: u64,
    /// None: killed by the watchdog
    pub status: Option<std::process::ExitStatus>,
    pub stderr_tail: String,
    /// content of the worker's crash record (`crash-<i>.json` in the worker directory), if any
    pub crash_record: Option<String>,
}

/// Runs `body` in `n` worker processes (or in-process for replay / when VERIF_WORKERS=0), merges
/// their reports into `report`. `limit` is the watchdog for the whole set of workers.
/// Returns the outcomes of workers that did not end with exit status 0.
pub fn run_in_workers(
    report: &Report,
    n: u64,
    limit: std::time::Duration,
    body: &dyn Fn(&Report),
) -> Vec<WorkerOutcome> {
    use std::io::Read;
    let ctx = &report.ctx;
    if let Some((_i, _n)) = ctx.worker {
        let dir = PathBuf::from(std::env::var("VERIF_WORKER_DIR").expect("VERIF_WORKER_DIR"));
        body(report);
        report.dump_worker(&dir);
        std::process::exit(0);
    }
    let inproc = std::env::var("VERIF_WORKERS").map(|v| v == "0").unwrap_or(false);
    if ctx.replay.is_some() || inproc || n <= 1 {
        body(report);
        return Vec::new();
    }
    let dir = std::env::temp_dir().join(format!("verif-{}-{}-{}", ctx.prop, std::process::id(), ctx.seed));
    let _ = std::fs::remove_dir_all(&dir);
    std::fs::create_dir_all(&dir).expect("worker dir");
    let exe = std::env::current_exe().expect("current_exe");
    let args: Vec<String> = std::env::args().skip(1).collect();
    let mut children = Vec::new();
    for i in 0..n {
        let child = std::process::Command::new(&exe)
            .args(&args)
            .env("VERIF_WORKER", format!("{i}/{n}"))
            .env("VERIF_WORKER_DIR", &dir)
            .env("RAYON_NUM_THREADS", std::env::var("VERIF_WORKER_THREADS").unwrap_or_else(|_| "2".to_string()))
            .stdin(std::process::Stdio::null())
            .stdout(std::process::Stdio::null())
            .stderr(std::process::Stdio::from(std::fs::File::create(dir.join(format!("w{i}.err"))).expect("stderr file")))
            .spawn()
            .expect("spawn worker");
        children.push((i, child));
    }
    let start = Instant::now();
    let mut bad = Vec::new();
    let mut pending: Vec<(u64, std::process::Child)> = children;
    while !pending.is_empty() {
        let mut still = Vec::new();
        for (i, mut child) in pending {
            match child.try_wait() {
                Ok(Some(status)) => {
                    let mut err = String::new();
                    if let Ok(mut f) = std::fs::File::open(dir.join(format!("w{i}.err"))) {
                        let _ = f.read_to_string(&mut err);
                    }
                    if status.success() {
                        if let Err(e) = report.merge_dump(&dir, i) {
                            report.infra(&e);
                        }
                        if !err.trim().is_empty() && std::env::var("VERIF_VERBOSE").is_ok() {
                            eprintln!("[worker {i}] {}", err.trim());
                        }
                    } else {
                        let tail: String = err.lines().rev().take(12).collect::<Vec<_>>().into_iter().rev().collect::<Vec<_>>().join("\n");
                        let crash_record = std::fs::read_to_string(dir.join(format!("crash-{i}.json"))).ok().filter(|c| !c.trim().is_empty());
                        bad.push(WorkerOutcome { index: i, status: Some(status), stderr_tail: tail, crash_record });
                    }
                }
                Ok(None) => {
                    if start.elapsed() > limit {
                        let _ = child.kill();
                        let _ = child.wait();
                        bad.push(WorkerOutcome { index: i, status: None, stderr_tail: String::new(), crash_record: None });
                    } else {
                        still.push((i, child));
                    }
                }
                Err(e) => {
                    report.infra(&format!("worker {i}: wait failed: {e}"));
                }
            }
        }
        pending = still;
        if !pending.is_empty() {
            std::thread::sleep(std::time::Duration::from_millis(20));
        }
    }
    let _ = std::fs::remove_dir_all(&dir);
    bad
}

/// Default treatment of dead workers: an infrastructure problem (exit 2), never a violation.
pub fn dead_workers_are_infra(report: &Report, bad: &[WorkerOutcome]) {
    for b in bad {
        match &b.status {
            None => report.infra(&format!("worker {} exceeded the time budget and was stopped (inconclusive)", b.index)),
            Some(s) => report.infra(&format!("worker {} ended abnormally ({s}): {}", b.index, b.stderr_tail)),
        }
    }
}


// ---------------------------------------------------------------------------------------------
// coverage-guided fuzzing (engine/fuzz): the proptest strategies are reused as decoders of the
// fuzzer's bytes, so a structured fuzz input is sound by construction exactly like a proptest
// case. proptest's pass-through RNG cannot be used for this: `prop_oneof!` forks the RNG for its
// lazily generated alternatives, every fork halves the remaining bytes, an exhausted pass-through
// RNG yields zeros, and rand 0.9's uniform sampling rejects zeros forever. Instead a chunk of the
// input seeds a ChaCha RNG; callers split their input into one chunk per generated element
// (operation, edit, ...) so that a byte mutation changes one element.

/// the value a strategy produces when its random choices are seeded by the given bytes
pub fn from_fuzz_bytes<S: proptest::strategy::Strategy>(s: &S, data: &[u8]) -> Option<S::Value> {
    use proptest::strategy::ValueTree;
    use proptest::test_runner::{Config, RngAlgorithm, TestRng, TestRunner};
    let mut seed = [0u8; 32];
    for (k, chunk) in seed.chunks_mut(8).enumerate() {
        chunk.copy_from_slice(&hash_of(&(k as u8, data)).to_le_bytes());
    }
    let rng = TestRng::from_seed(RngAlgorithm::ChaCha, &seed);
    let mut runner = TestRunner::new_with_rng(Config { failure_persistence: None, ..Config::default() }, rng);
    s.new_tree(&mut runner).ok().map(|t| t.current())
}

/// one value per 8-byte chunk of the input (at least one, at most `max`)
pub fn from_fuzz_chunks<S: proptest::strategy::Strategy>(s: &S, data: &[u8], max: usize) -> Vec<S::Value> {
    if data.is_empty() {
        return from_fuzz_bytes(s, data).into_iter().collect();
    }
    data.chunks(8).take(max).filter_map(|c| from_fuzz_bytes(s, c)).collect()
}

/// Records a failure found by a fuzz target as replay file (same format as `Report::fail`) in
/// `$VERIF_FUZZ_FAILS` and aborts the process so that libFuzzer keeps the input.
pub fn fuzz_failure(prop: &str, key: &str, msg: &str, case: J) -> ! {
    let dir = std::env::var("VERIF_FUZZ_FAILS").unwrap_or_else(|_| "fuzz-fails".to_string());
    let _ = std::fs::create_dir_all(&dir);
    let j = json!({"property": prop, "key": key, "what": msg, "case": case, "found_by": "libFuzzer"});
    let name = format!("{}/{:016x}.json", dir, hash_of(&j.to_string()));
    let _ = std::fs::write(&name, serde_json::to_string_pretty(&j).unwrap());
    eprintln!("FUZZ-FAIL property={prop} key={key} file={name} :: {msg}");
    std::process::abort()
}

#[cfg(test)]
mod fuzz_bytes_tests {
    use super::*;
    use proptest::prelude::*;

    #[test]
    fn seeded_generation_terminates_and_is_deterministic() {
        let s = proptest::collection::vec((proptest::collection::vec(any::<u8>(), 0..12usize), any::<u16>(), 0..6usize, prop_oneof![Just(1u8), Just(2u8), 3u8..9]), 1..40);
        for data in [&[][..], &[0x0a, 3, 8][..], &[0u8; 64][..], &[0xffu8; 64][..]] {
            let v = from_fuzz_bytes(&s, data).expect("value");
            assert!(!v.is_empty());
            assert_eq!(Some(v), from_fuzz_bytes(&s, data));
        }
        assert_eq!(from_fuzz_chunks(&any::<u16>(), &[1u8; 20], 10).len(), 3);
    }
}

/// user + system time of this process in ms (/proc/self/stat, 100 ticks per second): the per-case
/// watchdogs of C04 / C14 limit CPU time, because the wall clock of a case stretches arbitrarily
/// when the machine is oversubscribed
pub fn process_cpu_ms() -> Option<usize> {
    let stat = std::fs::read_to_string("/proc/self/stat").ok()?;
    let rest = &stat[stat.rfind(')')? + 2..];
    let mut it = rest.split(' ');
    let utime: usize = it.nth(11)?.parse().ok()?;
    let stime: usize = it.next()?.parse().ok()?;
    Some((utime + stime) * 10)
}

/// watchdog state machine shared by C04 / C14: `started` is the start stamp of the case in flight
/// (0: none); returns true when the case has used more than `cpu_limit_ms` of CPU time since it was
/// first seen, or more than `wall_limit_ms` of wall clock
pub struct CaseWatch {
    watched: usize,
    cpu_at_first_sight: usize,
}

impl CaseWatch {
    pub fn new() -> Self {
        CaseWatch { watched: 0, cpu_at_first_sight: 0 }
    }
    pub fn over(&mut self, started: usize, now_ms: usize, cpu_limit_ms: usize, wall_limit_ms: usize) -> bool {
        if started == 0 {
            self.watched = 0;
            return false;
        }
        let cpu = process_cpu_ms();
        if started != self.watched {
            self.watched = started;
            self.cpu_at_first_sight = cpu.unwrap_or(0);
            return false;
        }
        matches!(cpu, Some(c) if c > self.cpu_at_first_sight + cpu_limit_ms) || now_ms > started + wall_limit_ms
    }
}
