//! Grammar-based schema strategies and schema-directed value strategies (DESIGN.md 3.2, 3.3).
//! Everything random comes from proptest strategies, so cases shrink and replay.

use crate::refcodec::{comp_order, lit_value, wrap_for};
use crate::schema::*;
use proptest::prelude::*;
use proptest::strategy::BoxedStrategy;
use std::sync::Arc;

#[derive(Clone, Copy, Debug, PartialEq, Eq)]
pub enum Profile {
    /// exactly DESIGN.md section 4
    Conformance,
    /// everything the front end accepts and turns into compilable code within the grammar
    Roundtrip,
}

// ---------------------------------------------------------------------------------------------
// numeric families

pub fn int_family() -> Vec<i128> {
    let mut v: Vec<i128> = vec![0, 1, -1, i64::MIN as i128, i64::MAX as i128];
    for k in 0..=62u32 {
        let p = 1i128 << k;
        for d in [-1i128, 0, 1] {
            v.push(p + d);
            v.push(-p + d);
        }
    }
    for x in [127, 128, 255, 256, 16383, 16384, 65535, 65536] {
        v.push(x);
        v.push(-x);
    }
    v.retain(|x| *x >= i64::MIN as i128 && *x <= i64::MAX as i128);
    v.sort();
    v.dedup();
    v
}

pub fn size_family() -> Vec<u64> {
    vec![0, 1, 2, 3, 4, 7, 8, 15, 16, 17, 31, 32, 63, 64, 65, 127, 128, 129, 255, 256, 1000, 16383, 16384, 16385, 65535, 65536, 65537, 100000]
}

fn pick_int() -> BoxedStrategy<i128> {
    prop_oneof![3 => (-20i128..=20), 2 => proptest::sample::select(int_family()), 1 => any::<i64>().prop_map(|v| v as i128)].boxed()
}

// ---------------------------------------------------------------------------------------------
// type strategies

fn range_strategy(p: Profile) -> BoxedStrategy<Option<Range>> {
    let finite = (pick_int(), pick_int(), any::<bool>(), 0..8u8).prop_map(move |(a, b, ext, mode)| {
        let (mut lb, mut ub) = (a.min(b), a.max(b));
        // span < 2^63 (profile); single-value ranges are kept
        if ub - lb >= (1i128 << 63) {
            ub = lb + (1i128 << 62);
        }
        if mode == 0 {
            ub = lb; // lb = ub
        }
        if mode == 1 {
            lb = 0;
            ub = ub.abs().max(1).min(i64::MAX as i128); // (|i64::MIN| is outside the documented 64-bit domain)
        }
        Some(Range { lb: Some(Num::lit(lb)), ub: Some(Num::lit(ub)), ext })
    });
    match p {
        Profile::Conformance => prop_oneof![2 => Just(None), 6 => finite].boxed(),
        Profile::Roundtrip => prop_oneof![
            2 => Just(None),
            8 => finite,
            1 => (pick_int(), any::<bool>()).prop_map(|(lb, ext)| Some(Range { lb: Some(Num::lit(lb)), ub: None, ext })),
            1 => (pick_int(), any::<bool>()).prop_map(|(ub, ext)| Some(Range { lb: None, ub: Some(Num::lit(ub)), ext })),
            1 => any::<bool>().prop_map(|ext| Some(Range { lb: None, ub: None, ext })),
        ]
        .boxed(),
    }
}

fn size_strategy() -> BoxedStrategy<Option<Size>> {
    let fam = size_family();
    let pick = move || prop_oneof![4 => 0..12u64, 2 => proptest::sample::select(fam.clone())];
    prop_oneof![
        3 => Just(None),
        2 => (pick(), any::<bool>()).prop_map(|(n, ext)| Some(Size::fixed(n, ext))),
        5 => (pick(), pick(), any::<bool>()).prop_map(|(a, b, ext)| {
            let (lb, ub) = (a.min(b), a.max(b));
            if lb == ub { Some(Size::fixed(lb, ext)) } else { Some(Size::range(lb, Some(ub), ext)) }
        }),
        1 => (pick(), any::<bool>()).prop_map(|(lb, ext)| {
            // SIZE(0..MAX) without extension is the same as no size: keep it out (it is C07's subject)
            // ... and SIZE(0..MAX, ...) is rejected by the front end ("expected ')'")
            if lb == 0 { None } else { Some(Size::range(lb, None, ext)) }
        }),
    ]
    .boxed()
}

fn enumerated_strategy(p: Profile) -> BoxedStrategy<Type> {
    let num = prop_oneof![4 => 0..40i64, 1 => proptest::sample::select(vec![127i64, 128, 255, 256, 257, 1000, 65535, 65536, 1 << 31, 1 << 40])];
    (1..7usize, proptest::option::of(0..7usize), 0..4u8, proptest::collection::vec(num, 7)).prop_map(move |(n, root, mode, nums)| {
        let root = root.map(|r| (r % n) + 1); // 1..=n root items
        let mut items: Vec<(String, Option<i64>)> = (0..n).map(|i| (format!("e{i}"), None)).collect();
        match (p, mode) {
            (_, 0) => {
                // explicit numbers ascending in textual order
                let mut acc = 0;
                for (i, it) in items.iter_mut().enumerate() {
                    acc += (if nums[i] < 40 { nums[i] % 5 } else { nums[i] }) + if i == 0 { 0 } else { 1 };
                    it.1 = Some(acc);
                }
            }
            (Profile::Roundtrip, 1) => {
                // explicit numbers, any order, distinct (root items only; additions ascending)
                let n_root = root.unwrap_or(n);
                let mut used = Vec::new();
                for (i, it) in items.iter_mut().enumerate().take(n_root) {
                    let mut x = nums[i];
                    while used.contains(&x) {
                        x += 1;
                    }
                    used.push(x);
                    it.1 = Some(x);
                }
                let mut last = used.iter().copied().max().unwrap_or(0);
                for it in items.iter_mut().skip(n_root) {
                    last += 1;
                    it.1 = Some(last);
                }
            }
            _ => {}
        }
        Type::Enumerated { items, root }
    })
    .boxed()
}

fn leaf_strategy(p: Profile) -> BoxedStrategy<Type> {
    let named_bits = match p {
        Profile::Conformance => Just(Vec::<(String, u64)>::new()).boxed(),
        Profile::Roundtrip => prop_oneof![
            4 => Just(vec![]),
            1 => Just(vec![("bitA".to_string(), 0u64), ("bitB".to_string(), 3)]),
            // (declared out of ascending order: the declared order is what must be kept)
            1 => Just(vec![("execute".to_string(), 2u64), ("write".to_string(), 1), ("read".to_string(), 0), ("sticky".to_string(), 9)]),
            1 => Just(vec![("bit-a".to_string(), 0u64), ("bitB".to_string(), 1), ("c".to_string(), 2), ("dd".to_string(), 7), ("e5".to_string(), 300), ("last-one".to_string(), 65536)]),
        ].boxed(),
    };
    let named_nums = match p {
        Profile::Conformance => prop_oneof![6 => Just(Vec::<(String, i64)>::new()), 1 => Just(vec![("numA".to_string(), 1i64), ("numB".to_string(), 2)])].boxed(),
        Profile::Roundtrip => prop_oneof![
            4 => Just(vec![]),
            1 => Just(vec![("numA".to_string(), 1i64), ("numB".to_string(), 2)]),
            1 => Just(vec![("high".to_string(), 20i64), ("low".to_string(), -3), ("mid".to_string(), 7)]),
            1 => Just(vec![("zero".to_string(), 0i64), ("minus-one".to_string(), -1), ("big".to_string(), 4294967296), ("n4".to_string(), 255), ("n5".to_string(), 256), ("lowest".to_string(), i64::MIN), ("highest".to_string(), i64::MAX)]),
        ].boxed(),
    };
    prop_oneof![
        2 => Just(Type::Boolean),
        1 => Just(Type::Null),
        6 => (range_strategy(p), named_nums).prop_map(|(range, named)| Type::Integer { range, named }),
        3 => enumerated_strategy(p),
        2 => (size_strategy(), named_bits).prop_map(|(size, named)| Type::BitString { size, named }),
        2 => size_strategy().prop_map(|size| Type::OctetString { size }),
        5 => (prop_oneof![Just(Charset::Utf8), Just(Charset::Ia5), Just(Charset::Numeric), Just(Charset::Printable), Just(Charset::Visible)], size_strategy()).prop_map(|(cs, size)| Type::Str { cs, size }),
        2 => (0..8usize).prop_map(|k| Type::Ref(format!("@{k}"))),
    ]
    .boxed()
}

#[derive(Clone, Debug)]
struct RawComp {
    ty: Type,
    pres: u8,
    tag: (u8, u32),
}

fn tag_of(class: u8, n: u32) -> Tag {
    // UNIVERSAL numbers are kept away from the real universal tags
    match class % 4 {
        0 => Tag { class: TagClass::Universal, number: 40 + n },
        1 => Tag { class: TagClass::Application, number: n },
        2 => Tag { class: TagClass::Context, number: n },
        _ => Tag { class: TagClass::Private, number: n },
    }
}

pub fn type_strategy(p: Profile, depth: u32) -> BoxedStrategy<Type> {
    let leaf = leaf_strategy(p);
    if depth == 0 {
        return leaf;
    }
    let inner = type_strategy(p, depth - 1);
    let comp = (inner.clone(), 0..6u8, (0..4u8, 0..30u32)).prop_map(|(ty, pres, tag)| RawComp { ty, pres, tag });
    let fields = (proptest::collection::vec(comp.clone(), 0..6), proptest::option::of(0..7usize), 0..6u8, any::<bool>()).prop_map(move |(raw, root, tagmode, is_set)| {
        let n = raw.len();
        let root = root.map(|r| if n == 0 { 0 } else { (r % n) + 1 }).filter(|_| n > 0);
        let mut comps: Vec<Comp> = raw
            .iter()
            .enumerate()
            .map(|(i, rc)| Comp {
                name: format!("f{i}"),
                tag: None,
                ty: rc.ty.clone(),
                presence: match rc.pres {
                    0 | 1 => Presence::Optional,
                    2 => Presence::Default(DefaultVal { lit: Lit::Bool(false), via: None }), // placeholder, fixed up later
                    _ => Presence::Mandatory,
                },
            })
            .collect();
        // explicit tags: tagmode 0 = all components tagged (distinct tags), else none (automatic)
        if tagmode == 0 && n > 0 {
            let mut used: Vec<Tag> = Vec::new();
            let n_root = root.unwrap_or(n);
            for (i, rc) in raw.iter().enumerate() {
                let mut t = tag_of(rc.tag.0, rc.tag.1);
                while used.contains(&t) {
                    t.number += 1;
                }
                used.push(t);
                comps[i].tag = Some(t);
            }
            // additions: tags ascending in textual order (DESIGN.md section 4)
            let mut adds: Vec<Tag> = comps[n_root..].iter().map(|c| c.tag.unwrap()).collect();
            adds.sort();
            for (c, t) in comps[n_root..].iter_mut().zip(adds) {
                c.tag = Some(t);
            }
        }
        let f = Fields { comps, root };
        if is_set {
            Type::Set(f)
        } else {
            Type::Sequence(f)
        }
    });
    let alt = (inner.clone(), (0..4u8, 0..30u32));
    let choice = (proptest::collection::vec(alt, 1..6), proptest::option::of(0..7usize), 0..6u8).prop_map(move |(raw, root, tagmode)| {
        let n = raw.len();
        let root = root.map(|r| (r % n) + 1);
        let mut alts: Vec<Alt> = raw.iter().enumerate().map(|(i, (ty, _))| Alt { name: format!("c{i}"), tag: None, ty: ty.clone() }).collect();
        if tagmode == 0 {
            let mut used: Vec<Tag> = Vec::new();
            for (i, (_, tg)) in raw.iter().enumerate() {
                let mut t = tag_of(tg.0, tg.1);
                while used.contains(&t) {
                    t.number += 1;
                }
                used.push(t);
                alts[i].tag = Some(t);
            }
            let n_root = root.unwrap_or(n);
            if p == Profile::Conformance {
                // ascending canonical order among root alternatives and among additions
                let mut a: Vec<Tag> = alts[..n_root].iter().map(|c| c.tag.unwrap()).collect();
                a.sort();
                for (c, t) in alts[..n_root].iter_mut().zip(a) {
                    c.tag = Some(t);
                }
            }
            let mut a: Vec<Tag> = alts[n_root..].iter().map(|c| c.tag.unwrap()).collect();
            a.sort();
            for (c, t) in alts[n_root..].iter_mut().zip(a) {
                c.tag = Some(t);
            }
        }
        Type::Choice { alts, root }
    });
    let list = (inner, size_strategy(), any::<bool>()).prop_map(|(elem, size, is_set)| if is_set { Type::SetOf { elem: Box::new(elem), size } } else { Type::SequenceOf { elem: Box::new(elem), size } });
    prop_oneof![4 => leaf, 4 => fields, 2 => choice, 2 => list].boxed()
}

/// A module of 1..max_defs definitions named Ty0.. ; placeholders `@k` become references to an
/// earlier definition (or BOOLEAN when there is none); DEFAULT placeholders get a literal that
/// fits the component type (or the component becomes OPTIONAL where DEFAULT is unsupported).
pub fn module_strategy(p: Profile, name: String, depth: u32, max_defs: usize) -> BoxedStrategy<Module> {
    (proptest::collection::vec((type_strategy(p, depth), any::<u64>()), 1..=max_defs)).prop_map(move |raw| {
        let mut defs: Vec<Def> = Vec::new();
        for (i, (ty, salt)) in raw.into_iter().enumerate() {
            let mut ty = ty;
            let mut k = salt;
            fix_refs(&mut ty, &defs, &mut k);
            let def = Def { name: format!("Ty{i}"), tag: None, ty };
            defs.push(def);
        }
        let mut m = Module::simple(&name, defs);
        fix_defaults(&mut m);
        fix_null_defaults(&mut m);
        m
    })
    .boxed()
}

fn fix_refs(ty: &mut Type, defs: &[Def], salt: &mut u64) {
    match ty {
        Type::Ref(n) if n.starts_with('@') => {
            if defs.is_empty() {
                *ty = Type::Boolean;
            } else {
                let k: usize = n[1..].parse().unwrap_or(0);
                *salt = salt.wrapping_mul(6364136223846793005).wrapping_add(1442695040888963407);
                let idx = (k + (*salt >> 33) as usize) % defs.len();
                *ty = Type::Ref(defs[idx].name.clone());
            }
        }
        Type::Sequence(f) | Type::Set(f) => {
            for c in &mut f.comps {
                fix_refs(&mut c.ty, defs, salt);
            }
        }
        Type::SequenceOf { elem, .. } | Type::SetOf { elem, .. } => fix_refs(elem, defs, salt),
        Type::Choice { alts, .. } => {
            for a in alts {
                fix_refs(&mut a.ty, defs, salt);
            }
        }
        _ => {}
    }
}

/// a literal inside the type's constraints, or None if asn1rs documents no DEFAULT support for it
pub fn default_literal(m: &Module, ty: &Type, salt: u64) -> Option<Lit> {
    match m.resolve(ty) {
        Type::Boolean => Some(Lit::Bool(salt % 2 == 0)),
        Type::Integer { range, .. } => {
            let (lb, ub) = match range {
                None => (Some(0), None),
                Some(r) => (r.lb.as_ref().map(|n| n.value), r.ub.as_ref().map(|n| n.value)),
            };
            // unconstrained / (0..MAX) are u64 in Rust: stay non-negative there
            let v = match (lb, ub) {
                (Some(l), Some(u)) => l + ((salt as i128) % (u - l + 1).min(1000)),
                (Some(l), None) => l + (salt % 100) as i128,
                (None, Some(u)) => if u >= 0 { 0 } else { u },
                (None, None) => (salt % 100) as i128,
            };
            // (asn1rs is a documented 64-bit design: literals stay within i64)
            Some(Lit::Int(v.clamp(lb.unwrap_or(i64::MIN as i128).max(i64::MIN as i128), ub.unwrap_or(i64::MAX as i128).min(i64::MAX as i128))))
        }
        Type::Str { cs, size } => {
            let alpha: Vec<char> = match cs {
                Charset::Numeric => " 0123456789".chars().collect(),
                _ => "abcXYZ 019".chars().collect(),
            };
            let (lb, ub) = match size {
                None => (0usize, 5usize),
                Some(s) => (s.lb() as usize, s.ub().map(|u| u as usize).unwrap_or(s.lb() as usize + 5)),
            };
            let n = lb + (salt as usize % (ub - lb + 1).min(6));
            // the front end cannot read an empty cstring (`DEFAULT ""` is a parse error)
            let n = if n == 0 && ub >= 1 { 1 } else { n };
            if n > 40 || n == 0 {
                return None;
            }
            let mut st: String = (0..n).map(|i| alpha[(salt as usize / 7 + i * 3) % alpha.len()]).collect();
            // no leading/trailing/double blanks inside a cstring (layout of literals is not the subject)
            st = st.replace(' ', "b");
            if *cs == Charset::Numeric {
                st = st.replace('b', "5");
            }
            Some(Lit::Str(st))
        }
        Type::Enumerated { items, .. } => {
            // only through a reference that names the ENUMERATED itself: asn1rs resolves an item
            // name only there (through an alias of the type it is rejected as unknown value
            // reference - a refusal, which the properties allow for unsupported constructs)
            match ty {
                Type::Ref(n) if matches!(m.def(n).map(|d| &d.ty), Some(Type::Enumerated { .. })) => Some(Lit::EnumItem(items[salt as usize % items.len()].0.clone())),
                _ => None,
            }
        }
        _ => None,
    }
}

fn fix_defaults(m: &mut Module) {
    let snapshot = m.clone();
    let mut salt = 0x9E3779B97F4A7C15u64;
    for a in &mut m.body {
        if let Assignment::Type(d) = a {
            fix_defaults_in(&snapshot, &mut d.ty, &mut salt);
        }
    }
}

fn fix_defaults_in(m: &Module, ty: &mut Type, salt: &mut u64) {
    match ty {
        Type::Sequence(f) | Type::Set(f) => {
            for c in &mut f.comps {
                fix_defaults_in(m, &mut c.ty, salt);
                if let Presence::Default(_) = c.presence {
                    *salt = salt.wrapping_mul(6364136223846793005).wrapping_add(1442695040888963407);
                    c.presence = match default_literal(m, &c.ty, *salt >> 20) {
                        Some(lit) => Presence::Default(DefaultVal { lit, via: None }),
                        None => Presence::Optional,
                    };
                }
            }
        }
        Type::SequenceOf { elem, .. } | Type::SetOf { elem, .. } => fix_defaults_in(m, elem, salt),
        Type::Choice { alts, .. } => {
            for a in alts {
                fix_defaults_in(m, &mut a.ty, salt);
            }
        }
        _ => {}
    }
}

fn fix_null_defaults(_m: &mut Module) {}

// ---------------------------------------------------------------------------------------------
// value strategies

#[derive(Clone, Copy, Debug)]
pub struct ValueCfg {
    /// weight (out of 100) of drawing a "big" size (>= 16383) where the type admits one
    pub big_weight: u32,
    /// largest size ever generated
    pub max_big: usize,
    /// largest element count of SEQUENCE/SET OF and known-multiplier strings (lowered while the
    /// known finding about their fragmentation is open)
    pub max_big_elems: usize,
    /// only values inside DESIGN.md section 4 (integers within i64 / non-negative for u64 fields)
    pub conformance: bool,
    /// generate out-of-root values/sizes for extensible constraints
    pub out_of_root: bool,
    /// exclusion for the open known finding "open-type-over-16k": keep everything that is encoded
    /// inside an open type (extension additions / extension alternatives) small
    pub cap_open_types: bool,
    /// set while generating inside an open type under `cap_open_types`: hard limit for sizes
    pub hard_limit: Option<usize>,
    /// C01 only ("if encoding succeeds ..."): now and then one character of a restricted
    /// character string is replaced by a character outside its alphabet whose low 8 or 7 bits are
    /// inside it - the encoder must refuse it, and if it does not, the round trip shows it
    pub foreign_chars: bool,
}

impl Default for ValueCfg {
    fn default() -> Self {
        ValueCfg { big_weight: 2, max_big: 70000, max_big_elems: 70000, conformance: true, out_of_root: true, cap_open_types: false, hard_limit: None, foreign_chars: false }
    }
}

impl ValueCfg {
    pub fn inside_open_type(self) -> ValueCfg {
        if self.cap_open_types {
            ValueCfg { hard_limit: Some(self.hard_limit.unwrap_or(100).min(100)), big_weight: 0, ..self }
        } else {
            self
        }
    }
}

/// generous upper estimate of the octets a value occupies in any PER encoding
pub fn approx_octets(v: &Value) -> usize {
    match v {
        Value::Bool(_) | Value::Null | Value::Enum(_) => 2,
        Value::Int(_) => 10,
        Value::Bits(b) => b.len() / 8 + 4,
        Value::Bytes(b) => b.len() + 4,
        Value::Str(s) => s.len() + 4,
        Value::Seq(slots) => 3 + slots.iter().flatten().map(approx_octets).sum::<usize>(),
        Value::List(l) => 4 + l.iter().map(approx_octets).sum::<usize>(),
        Value::Choice(_, x) => 3 + approx_octets(x),
    }
}

/// Is the value inside a region that an *open known finding* excludes from generation?
/// (`max_big_elems` < 16384: lists / known-multiplier strings that would need fragmentation;
///  `cap_open_types`: open types of >= 16384 octets; 12000 is used so that the estimate is safe.)
pub fn excluded_by_findings(m: &Module, ty: &Type, v: &Value, cfg: ValueCfg) -> bool {
    match (ty, v) {
        (Type::Ref(n), v) => {
            let d = m.def(n).expect("reference");
            let inner = if d.ty.is_own_rust_type() {
                v
            } else {
                match v {
                    Value::Seq(s) if s.len() == 1 && s[0].is_some() => s[0].as_ref().unwrap(),
                    _ => return false,
                }
            };
            excluded_by_findings(m, &d.ty, inner, cfg)
        }
        (Type::Str { cs, .. }, Value::Str(s)) => *cs != Charset::Utf8 && s.chars().count() > cfg.max_big_elems,
        (Type::SequenceOf { elem, .. }, Value::List(l)) | (Type::SetOf { elem, .. }, Value::List(l)) => l.len() > cfg.max_big_elems || l.iter().take(50).any(|x| excluded_by_findings(m, elem, x, cfg)),
        (Type::Sequence(f), Value::Seq(slots)) | (Type::Set(f), Value::Seq(slots)) if slots.len() == f.comps.len() => {
            let n_root = f.root.unwrap_or(f.comps.len());
            f.comps.iter().zip(slots).enumerate().any(|(i, (c, sl))| match sl {
                None => false,
                Some(x) => (cfg.cap_open_types && i >= n_root && approx_octets(x) >= 12000) || excluded_by_findings(m, &c.ty, x, cfg),
            })
        }
        (Type::Choice { alts, root }, Value::Choice(i, x)) if *i < alts.len() => {
            let n_root = root.unwrap_or(alts.len());
            (cfg.cap_open_types && *i >= n_root && approx_octets(x) >= 12000) || excluded_by_findings(m, &alts[*i].ty, x, cfg)
        }
        _ => false,
    }
}

pub fn def_excluded_by_findings(m: &Module, def: &Def, v: &Value, cfg: ValueCfg) -> bool {
    if cfg.max_big_elems >= 16384 && !cfg.cap_open_types {
        return false;
    }
    let inner = if def.ty.is_own_rust_type() {
        v
    } else {
        match v {
            Value::Seq(s) if s.len() == 1 && s[0].is_some() => s[0].as_ref().unwrap(),
            _ => return false,
        }
    };
    excluded_by_findings(m, &def.ty, inner, cfg)
}

/// can a value of `ty` be generated within `cfg.hard_limit`?
pub fn fits_limit(m: &Module, ty: &Type, cfg: ValueCfg) -> bool {
    let limit = match cfg.hard_limit {
        None => return true,
        Some(l) => l,
    };
    let size_ok = |s: &Option<Size>, lim: usize| s.as_ref().map(|s| (s.lb() as usize) <= lim).unwrap_or(true);
    match ty {
        Type::Ref(n) => fits_limit(m, &m.def(n).expect("reference").ty, cfg),
        Type::BitString { size, .. } | Type::OctetString { size } | Type::Str { size, .. } => size_ok(size, limit),
        Type::SequenceOf { elem, size } | Type::SetOf { elem, size } => size_ok(size, 8) && fits_limit(m, elem, cfg),
        Type::Sequence(f) | Type::Set(f) => {
            let n_root = f.root.unwrap_or(f.comps.len());
            f.comps.iter().take(n_root).all(|c| c.presence != Presence::Mandatory || fits_limit(m, &c.ty, cfg))
        }
        Type::Choice { alts, .. } => alts.iter().any(|a| fits_limit(m, &a.ty, cfg)),
        _ => true,
    }
}

fn is_cheap_elem(m: &Module, ty: &Type) -> bool {
    matches!(m.resolve(ty), Type::Boolean | Type::Null | Type::Integer { .. } | Type::Enumerated { .. })
}

/// sizes admitted by `size`, boundary biased. `cheap`: big sizes allowed.
fn size_values(size: &Option<Size>, cfg: ValueCfg, cheap: bool, max_big: usize) -> BoxedStrategy<usize> {
    let (lb, ub, ext) = match size {
        None => (0usize, None, false),
        Some(s) => (s.lb() as usize, s.ub().map(|u| u.min(1 << 40) as usize), s.ext),
    };
    let cap_small = 40usize;
    let mut small: Vec<usize> = vec![lb, lb + 1, lb + 2];
    let hi = ub.unwrap_or(usize::MAX);
    for x in [0usize, 1, 2, 3, 7, 8, 9, 15, 16, 17, 31, 32, 33] {
        small.push(x);
    }
    if hi < lb + cap_small {
        small.extend([hi, hi.saturating_sub(1)]);
    }
    let mut medium: Vec<usize> = vec![63, 64, 65, 127, 128, 129, 130, 255, 256, 300];
    if hi <= 2000 {
        medium.extend([hi, hi.saturating_sub(1)]);
    }
    if lb <= 2000 {
        medium.extend([lb, lb + 1]);
    }
    let mut big: Vec<usize> = vec![16383, 16384, 16385, 32767, 32768, 32769, 49152, 65535, 65536, 65537, 70000];
    if hi <= max_big {
        big.extend([hi, hi.saturating_sub(1)]);
    }
    if lb >= 2000 && lb <= max_big {
        big.extend([lb, lb + 1]);
    }
    let in_root = move |n: &usize| *n >= lb && *n <= hi;
    let limit = cfg.hard_limit.unwrap_or(usize::MAX);
    let keep = |v: Vec<usize>, max: usize| -> Vec<usize> {
        let mut v: Vec<usize> = v.into_iter().filter(|n| *n <= limit && *n <= max && (ext && cfg.out_of_root || in_root(n))).collect();
        v.sort();
        v.dedup();
        v
    };
    let small = keep(small, lb.max(cap_small).min(2000));
    let medium = keep(medium, 2000);
    let big = if cheap { keep(big, max_big) } else { vec![] };
    let mut arms: Vec<(u32, BoxedStrategy<usize>)> = Vec::new();
    if !small.is_empty() {
        arms.push((70, proptest::sample::select(small).boxed()));
    }
    if !medium.is_empty() && cheap {
        arms.push((12, proptest::sample::select(medium.clone()).boxed()));
    } else if !medium.is_empty() {
        let m: Vec<usize> = medium.into_iter().filter(|n| *n <= 130).collect();
        if !m.is_empty() {
            arms.push((4, proptest::sample::select(m).boxed()));
        }
    }
    if !big.is_empty() && cfg.big_weight > 0 {
        arms.push((cfg.big_weight, proptest::sample::select(big).boxed()));
    }
    if arms.is_empty() {
        // the only admitted sizes are expensive ones (e.g. SIZE(100000) of a structured element):
        // the smallest admitted size (callers keep such types out of capped open types)
        return Just(lb).boxed();
    }
    proptest::strategy::Union::new_weighted(arms).boxed()
}

/// The value range of the Rust integer type asn1rs documents for an INTEGER constraint (README,
/// `asn_fixed_integer_to_rust_type`): used only to keep generated values representable.
pub fn rust_int_bounds(lb: Option<i128>, ub: Option<i128>, ext: bool) -> (i128, i128) {
    let i64max = i64::MAX as i128;
    let whole = matches!((lb, ub), (None, None) | (Some(0), None)) || (lb == Some(0) && ub == Some(i64max)) || (lb.is_none() && ub == Some(i64max));
    if whole {
        return (0, u64::MAX as i128);
    }
    if ext {
        // (an extensible range without lower bound is signed: fix 4d8d31d)
        return if lb.is_some() && lb.unwrap_or(0) >= 0 && ub.unwrap_or(0) >= 0 { (0, u64::MAX as i128) } else { (i64::MIN as i128, i64max) };
    }
    let min = lb.unwrap_or(0);
    let max = ub.unwrap_or(i64max);
    if min >= 0 {
        let m = max as u64 as u128;
        if m <= u8::MAX as u128 {
            (0, u8::MAX as i128)
        } else if m <= u16::MAX as u128 {
            (0, u16::MAX as i128)
        } else if m <= u32::MAX as u128 {
            (0, u32::MAX as i128)
        } else {
            (0, u64::MAX as i128)
        }
    } else {
        let amp = (min + 1).abs().max(max);
        if amp <= i8::MAX as i128 {
            (i8::MIN as i128, i8::MAX as i128)
        } else if amp <= i16::MAX as i128 {
            (i16::MIN as i128, i16::MAX as i128)
        } else if amp <= i32::MAX as i128 {
            (i32::MIN as i128, i32::MAX as i128)
        } else {
            (i64::MIN as i128, i64max)
        }
    }
}

fn int_values(range: &Option<Range>, cfg: ValueCfg) -> BoxedStrategy<Value> {
    let (lb, ub, ext) = match range {
        None => (None, None, false),
        Some(r) => (r.lb.as_ref().map(|n| n.value), r.ub.as_ref().map(|n| n.value), r.ext),
    };
    let (mut tlo, mut thi) = rust_int_bounds(lb, ub, ext);
    if cfg.conformance {
        thi = thi.min(i64::MAX as i128);
    }
    // the value set of the ASN.1 type (root), cut to what the Rust type can hold
    let rlo = lb.unwrap_or(i128::MIN / 4).max(tlo);
    let rhi = ub.unwrap_or(i128::MAX / 4).min(thi);
    if !(ext && cfg.out_of_root) {
        tlo = rlo;
        thi = rhi;
    }
    let mut cands: Vec<i128> = Vec::new();
    if rlo <= rhi {
        cands.extend([rlo, rhi, rlo + 1, rhi - 1, rlo / 2 + rhi / 2, 0, 1, -1, 127, 128, 255, 256]);
        if lb.is_none() || ub.is_none() || rhi - rlo > 1 << 20 {
            cands.extend(int_family());
        }
        cands.retain(|v| *v >= rlo && *v <= rhi);
    }
    if ext && cfg.out_of_root {
        let mut out = vec![rlo - 1, rhi + 1, rlo - 2, rhi + 2, rhi + 1000, rlo - 1000, tlo, thi, 0];
        out.extend(int_family());
        out.retain(|v| (*v < rlo || *v > rhi) && *v >= tlo && *v <= thi);
        out.sort();
        out.dedup();
        // spread: keep at most 40 of them
        let step = (out.len() / 40).max(1);
        cands.extend(out.into_iter().step_by(step));
    }
    cands.sort();
    cands.dedup();
    if rlo > rhi && cands.is_empty() {
        // nothing of the type is representable in the generated field type: produce the bound
        // (the bridge reports it as unrepresentable)
        return Just(Value::Int(ub.or(lb).unwrap_or(0))).boxed();
    }
    let (ulo, uhi) = if rlo <= rhi { (rlo, rhi) } else { (tlo, thi) };
    let span = (uhi - ulo) as u128;
    let uniform: BoxedStrategy<i128> = any::<u128>().prop_map(move |x| ulo + (x % (span + 1)) as i128).boxed();
    if cands.is_empty() {
        return uniform.prop_map(Value::Int).boxed();
    }
    prop_oneof![3 => proptest::sample::select(cands), 1 => uniform].prop_map(Value::Int).boxed()
}

fn string_values(cs: Charset, size: &Option<Size>, cfg: ValueCfg) -> BoxedStrategy<Value> {
    let alpha: Vec<char> = match cs.alphabet() {
        Some(a) => a,
        None => "aZ09 ~\u{e4}\u{20ac}\u{1F600}\u{0}\u{7f}\u{80}\u{7ff}\u{800}".chars().collect(),
    };
    let first = alpha[0];
    let last = *alpha.last().unwrap();
    let max_big = if cs == Charset::Utf8 { cfg.max_big } else { cfg.max_big_elems };
    // outside every restricted alphabet, but the low octet / low seven bits are a letter, a digit, a blank or NUL
    const FOREIGN: [char; 8] = ['\u{141}', '\u{c1}', '\u{130}', '\u{b0}', '\u{120}', '\u{ff21}', '\u{100}', '\u{1F600}'];
    let foreign = cfg.foreign_chars && cs != Charset::Utf8;
    (size_values(size, cfg, true, max_big), any::<u64>(), 0..4u8).prop_map(move |(n, seed, mode)| {
        let mut st = String::with_capacity(n);
        let mut x = seed | 1;
        for i in 0..n {
            x ^= x << 13;
            x ^= x >> 7;
            x ^= x << 17;
            let c = match (mode, i) {
                (3, _) if foreign && seed % 8 == 0 && i == (seed >> 8) as usize % n => FOREIGN[(seed >> 24) as usize % FOREIGN.len()],
                (0, 0) => first,
                (0, _) if i + 1 == n => last,
                (1, _) => last,
                _ => alpha[(x % alpha.len() as u64) as usize],
            };
            st.push(c);
        }
        Value::Str(st)
    })
    .boxed()
}

pub fn value_strategy(m: &Arc<Module>, ty: &Type, cfg: ValueCfg) -> BoxedStrategy<Value> {
    match ty {
        Type::Ref(name) => {
            let d = m.def(name).expect("reference").clone();
            let inner = value_strategy(m, &d.ty, cfg);
            if d.ty.is_own_rust_type() {
                inner
            } else {
                inner.prop_map(Value::wrap).boxed()
            }
        }
        Type::Boolean => any::<bool>().prop_map(Value::Bool).boxed(),
        Type::Null => Just(Value::Null).boxed(),
        Type::Integer { range, .. } => int_values(range, cfg),
        Type::Enumerated { items, .. } => (0..items.len()).prop_map(Value::Enum).boxed(),
        Type::BitString { size, .. } => (size_values(size, cfg, true, cfg.max_big), any::<u64>(), 0..4u8)
            .prop_map(|(n, seed, mode)| {
                let mut x = seed | 1;
                let bits = (0..n)
                    .map(|_| {
                        x ^= x << 13;
                        x ^= x >> 7;
                        x ^= x << 17;
                        match mode {
                            0 => true,
                            1 => false,
                            _ => x & 1 == 1,
                        }
                    })
                    .collect();
                Value::Bits(bits)
            })
            .boxed(),
        Type::OctetString { size } => (size_values(size, cfg, true, cfg.max_big), any::<u64>())
            .prop_map(|(n, seed)| {
                let mut x = seed | 1;
                Value::Bytes(
                    (0..n)
                        .map(|_| {
                            x ^= x << 13;
                            x ^= x >> 7;
                            x ^= x << 17;
                            x as u8
                        })
                        .collect(),
                )
            })
            .boxed(),
        Type::Str { cs, size } => string_values(*cs, size, cfg),
        Type::Sequence(f) | Type::Set(f) => fields_values(m, f, cfg),
        Type::SequenceOf { elem, size } | Type::SetOf { elem, size } => {
            let cheap = is_cheap_elem(m, elem);
            let es = value_strategy(m, elem, ValueCfg { big_weight: 0, ..cfg });
            let lcfg = ValueCfg { hard_limit: cfg.hard_limit.map(|l| l.min(8)), ..cfg };
            size_values(size, lcfg, cheap, cfg.max_big_elems)
                .prop_flat_map(move |n| {
                    if n <= 40 {
                        proptest::collection::vec(es.clone(), n).prop_map(Value::List).boxed()
                    } else {
                        // long lists: a short random pattern repeated (generation cost, shrinking)
                        proptest::collection::vec(es.clone(), 5).prop_map(move |pat| Value::List((0..n).map(|i| pat[i % 5].clone()).collect())).boxed()
                    }
                })
                .boxed()
        }
        Type::Choice { alts, root } => {
            let n_root = root.unwrap_or(alts.len());
            let mut arms: Vec<BoxedStrategy<Value>> = Vec::new();
            for (i, a) in alts.iter().enumerate() {
                let acfg = if i >= n_root { cfg.inside_open_type() } else { cfg };
                if (i >= n_root || cfg.hard_limit.is_some()) && !fits_limit(m, &a.ty, acfg) {
                    continue;
                }
                arms.push(value_strategy(m, &a.ty, acfg).prop_map(move |v| Value::Choice(i, Box::new(v))).boxed());
            }
            if arms.is_empty() {
                // every alternative is too big for the cap: callers check fits_limit first; fall back
                arms.push(value_strategy(m, &alts[0].ty, cfg).prop_map(|v| Value::Choice(0, Box::new(v))).boxed());
            }
            proptest::strategy::Union::new(arms).boxed()
        }
    }
}

fn fields_values(m: &Arc<Module>, f: &Fields, cfg: ValueCfg) -> BoxedStrategy<Value> {
    let n_root = f.root.unwrap_or(f.comps.len());
    let mut slots: Vec<BoxedStrategy<Option<Value>>> = Vec::new();
    for (i, c) in f.comps.iter().enumerate() {
        let ccfg = if i >= n_root { cfg.inside_open_type() } else { cfg };
        if i >= n_root && !fits_limit(m, &c.ty, ccfg) {
            // cannot be kept small: always absent (DEFAULT: the default value)
            slots.push(match &c.presence {
                Presence::Default(d) => Just(Some(lit_value(m, &c.ty, &d.lit).expect("default literal fits its type"))).boxed(),
                _ => Just(None).boxed(),
            });
            continue;
        }
        let vs = value_strategy(m, &c.ty, ccfg);
        let s: BoxedStrategy<Option<Value>> = match &c.presence {
            Presence::Default(d) => {
                let dv = lit_value(m, &c.ty, &d.lit).expect("default literal fits its type");
                if !fits_limit(m, &c.ty, ccfg) {
                    Just(Some(dv)).boxed()
                } else {
                    prop_oneof![1 => Just(Some(dv)), 2 => vs.prop_map(Some)].boxed()
                }
            }
            Presence::Optional if !fits_limit(m, &c.ty, ccfg) => Just(None).boxed(),
            Presence::Optional => prop_oneof![1 => Just(None), 1 => vs.prop_map(Some)].boxed(),
            Presence::Mandatory if i >= n_root => prop_oneof![1 => Just(None), 2 => vs.prop_map(Some)].boxed(),
            Presence::Mandatory => vs.prop_map(Some).boxed(),
        };
        slots.push(s);
    }
    let comps = f.comps.clone();
    let mm = m.clone();
    (slots, 0..5u8, value_strategy_first_add(m, f, cfg))
        .prop_map(move |(mut slots, fix, first)| {
            // The encoder documents a refusal when the first addition is absent while a later one
            // is present (C03). Mostly avoid that pattern: make the first addition present.
            if n_root < comps.len() && fix != 0 {
                let later = (n_root + 1..comps.len()).any(|i| match (&comps[i].presence, &slots[i]) {
                    (_, None) => false,
                    (Presence::Default(d), Some(v)) => &lit_value(&mm, &comps[i].ty, &d.lit).unwrap() != v,
                    _ => true,
                });
                let first_present = match (&comps[n_root].presence, &slots[n_root]) {
                    (_, None) => false,
                    (Presence::Default(d), Some(v)) => &lit_value(&mm, &comps[n_root].ty, &d.lit).unwrap() != v,
                    _ => true,
                };
                if later && !first_present {
                    if let Some(v) = &first {
                        slots[n_root] = Some(v.clone());
                    }
                }
            }
            Value::Seq(slots)
        })
        .boxed()
}

/// a value for the first extension addition that counts as present (differs from its default)
fn value_strategy_first_add(m: &Arc<Module>, f: &Fields, cfg: ValueCfg) -> BoxedStrategy<Option<Value>> {
    let n_root = f.root.unwrap_or(f.comps.len());
    if n_root >= f.comps.len() {
        return Just(None).boxed();
    }
    let c = f.comps[n_root].clone();
    let ccfg = cfg.inside_open_type();
    if !fits_limit(m, &c.ty, ccfg) {
        return Just(None).boxed();
    }
    let vs = value_strategy(m, &c.ty, ccfg);
    match &c.presence {
        Presence::Default(d) => {
            let dv = lit_value(m, &c.ty, &d.lit).unwrap();
            vs.prop_map(move |v| if v == dv { None } else { Some(v) }).boxed()
        }
        _ => vs.prop_map(Some).boxed(),
    }
}

/// value strategy for a top-level definition (adds the alias wrapper)
pub fn def_value_strategy(m: &Arc<Module>, def: &Def, cfg: ValueCfg) -> BoxedStrategy<Value> {
    let inner = value_strategy(m, &def.ty, cfg);
    if def.ty.is_own_rust_type() {
        inner
    } else {
        inner.prop_map(Value::wrap).boxed()
    }
}

// ---------------------------------------------------------------------------------------------
// textual order <-> the order in which the generated code visits SET components

/// Reorders the slots of every SET value from textual order into canonical (visiting) order.
pub fn to_visit_order(m: &Module, ty: &Type, v: &Value) -> Value {
    reorder(m, ty, v, true)
}
pub fn from_visit_order(m: &Module, ty: &Type, v: &Value) -> Value {
    reorder(m, ty, v, false)
}

pub fn def_to_visit_order(m: &Module, def: &Def, v: &Value, forward: bool) -> Value {
    if def.ty.is_own_rust_type() {
        reorder(m, &def.ty, v, forward)
    } else {
        match v {
            Value::Seq(s) if s.len() == 1 => Value::Seq(vec![s[0].as_ref().map(|x| reorder(m, &def.ty, x, forward))]),
            o => o.clone(),
        }
    }
}

fn reorder(m: &Module, ty: &Type, v: &Value, forward: bool) -> Value {
    match (ty, v) {
        (Type::Ref(n), v) => {
            let d = m.def(n).expect("reference");
            def_to_visit_order(m, d, v, forward)
        }
        (Type::Sequence(f), Value::Seq(slots)) if slots.len() == f.comps.len() => Value::Seq(slots.iter().zip(&f.comps).map(|(s, c)| s.as_ref().map(|x| reorder(m, &c.ty, x, forward))).collect()),
        (Type::Set(f), Value::Seq(slots)) if slots.len() == f.comps.len() => {
            let order = comp_order(m, f, true).expect("order");
            if forward {
                // slot k of the result = component order[k]
                Value::Seq(order.iter().map(|&i| slots[i].as_ref().map(|x| reorder(m, &f.comps[i].ty, x, forward))).collect())
            } else {
                let mut out: Vec<Option<Value>> = vec![None; slots.len()];
                for (k, &i) in order.iter().enumerate() {
                    out[i] = slots[k].as_ref().map(|x| reorder(m, &f.comps[i].ty, x, forward));
                }
                Value::Seq(out)
            }
        }
        (Type::SequenceOf { elem, .. }, Value::List(items)) | (Type::SetOf { elem, .. }, Value::List(items)) => Value::List(items.iter().map(|x| reorder(m, elem, x, forward)).collect()),
        (Type::Choice { alts, .. }, Value::Choice(i, inner)) if *i < alts.len() => Value::Choice(*i, Box::new(reorder(m, &alts[*i].ty, inner, forward))),
        (_, v) => v.clone(),
    }
}

pub fn wrap_value_for(m: &Module, ty: &Type, v: Value) -> Value {
    wrap_for(m, ty, v)
}
