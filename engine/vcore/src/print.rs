//! ASN.1 printer for abstract schemas: produces a list of lexical items (so that C13 can choose
//! the separators) and a plain rendering. Keywords are always upper case (DESIGN.md C07).

use crate::schema::*;

#[derive(Clone, Debug, PartialEq, Eq, Hash)]
pub enum Tok {
    /// identifier, keyword or number
    Word(String),
    /// one lexical item consisting of separator characters: `::=`, `..`, `...`, `{`, `(`, `,` …
    Sym(String),
    /// cstring / hstring / bstring, printed verbatim, never touched by a layout
    Quoted(String),
    /// layout hint for the plain rendering only (start of an assignment)
    Break,
}

impl Tok {
    pub fn text(&self) -> &str {
        match self {
            Tok::Word(s) | Tok::Sym(s) | Tok::Quoted(s) => s,
            Tok::Break => "",
        }
    }
}

fn w(out: &mut Vec<Tok>, s: &str) {
    out.push(Tok::Word(s.to_string()));
}
fn sym(out: &mut Vec<Tok>, s: &str) {
    out.push(Tok::Sym(s.to_string()));
}

pub fn tag_tokens(out: &mut Vec<Tok>, t: &Tag) {
    sym(out, "[");
    match t.class {
        TagClass::Universal => w(out, "UNIVERSAL"),
        TagClass::Application => w(out, "APPLICATION"),
        TagClass::Private => w(out, "PRIVATE"),
        TagClass::Context => {}
    }
    w(out, &t.number.to_string());
    sym(out, "]");
}

fn num(out: &mut Vec<Tok>, n: &Num) {
    match &n.via {
        Some(name) => w(out, name),
        None => w(out, &n.value.to_string()),
    }
}

fn range_tokens(out: &mut Vec<Tok>, r: &Range) {
    sym(out, "(");
    match &r.lb {
        None => w(out, "MIN"),
        Some(n) => num(out, n),
    }
    sym(out, "..");
    match &r.ub {
        None => w(out, "MAX"),
        Some(n) => num(out, n),
    }
    if r.ext {
        sym(out, ",");
        sym(out, "...");
    }
    sym(out, ")");
}

/// `SIZE(..)` without the outer parentheses
fn size_inner(out: &mut Vec<Tok>, s: &Size) {
    w(out, "SIZE");
    sym(out, "(");
    num(out, &s.lb);
    if !s.fixed {
        sym(out, "..");
        match &s.ub {
            None => w(out, "MAX"),
            Some(n) => num(out, n),
        }
    }
    if s.ext {
        sym(out, ",");
        sym(out, "...");
    }
    sym(out, ")");
}

fn size_tokens(out: &mut Vec<Tok>, s: &Size) {
    sym(out, "(");
    size_inner(out, s);
    sym(out, ")");
}

pub fn lit_tokens(out: &mut Vec<Tok>, l: &Lit) {
    match l {
        Lit::Bool(true) => w(out, "TRUE"),
        Lit::Bool(false) => w(out, "FALSE"),
        Lit::Int(i) => w(out, &i.to_string()),
        Lit::Str(s) => out.push(Tok::Quoted(format!("\"{s}\""))),
        Lit::Hex(b) => out.push(Tok::Quoted(format!("'{}'H", b.iter().map(|x| format!("{x:02X}")).collect::<String>()))),
        Lit::Bin(b) => out.push(Tok::Quoted(format!("'{}'B", crate::bitmodel::bitstr(b)))),
        Lit::EnumItem(n) => w(out, n),
    }
}

fn fields_tokens(out: &mut Vec<Tok>, f: &Fields) {
    sym(out, "{");
    let mut first = true;
    for (i, c) in f.comps.iter().enumerate() {
        if f.root == Some(i) {
            if !first {
                sym(out, ",");
            }
            sym(out, "...");
            first = false;
        }
        if !first {
            sym(out, ",");
        }
        first = false;
        w(out, &c.name);
        if let Some(t) = &c.tag {
            tag_tokens(out, t);
        }
        type_tokens(out, &c.ty);
        match &c.presence {
            Presence::Mandatory => {}
            Presence::Optional => w(out, "OPTIONAL"),
            Presence::Default(d) => {
                w(out, "DEFAULT");
                match &d.via {
                    Some(name) => w(out, name),
                    None => lit_tokens(out, &d.lit),
                }
            }
        }
    }
    if f.root == Some(f.comps.len()) {
        if !first {
            sym(out, ",");
        }
        sym(out, "...");
    }
    sym(out, "}");
}

pub fn type_tokens(out: &mut Vec<Tok>, t: &Type) {
    match t {
        Type::Boolean => w(out, "BOOLEAN"),
        Type::Null => w(out, "NULL"),
        Type::Integer { range, named } => {
            w(out, "INTEGER");
            if !named.is_empty() {
                sym(out, "{");
                for (i, (n, v)) in named.iter().enumerate() {
                    if i > 0 {
                        sym(out, ",");
                    }
                    w(out, n);
                    sym(out, "(");
                    w(out, &v.to_string());
                    sym(out, ")");
                }
                sym(out, "}");
            }
            if let Some(r) = range {
                range_tokens(out, r);
            }
        }
        Type::Enumerated { items, root } => {
            w(out, "ENUMERATED");
            sym(out, "{");
            for (i, (n, v)) in items.iter().enumerate() {
                if i > 0 {
                    sym(out, ",");
                }
                if *root == Some(i) {
                    sym(out, "...");
                    sym(out, ",");
                }
                w(out, n);
                if let Some(v) = v {
                    sym(out, "(");
                    w(out, &v.to_string());
                    sym(out, ")");
                }
            }
            if *root == Some(items.len()) {
                sym(out, ",");
                sym(out, "...");
            }
            sym(out, "}");
        }
        Type::BitString { size, named } => {
            w(out, "BIT");
            w(out, "STRING");
            if !named.is_empty() {
                sym(out, "{");
                for (i, (n, v)) in named.iter().enumerate() {
                    if i > 0 {
                        sym(out, ",");
                    }
                    w(out, n);
                    sym(out, "(");
                    w(out, &v.to_string());
                    sym(out, ")");
                }
                sym(out, "}");
            }
            if let Some(s) = size {
                size_tokens(out, s);
            }
        }
        Type::OctetString { size } => {
            w(out, "OCTET");
            w(out, "STRING");
            if let Some(s) = size {
                size_tokens(out, s);
            }
        }
        Type::Str { cs, size } => {
            w(out, cs.keyword());
            if let Some(s) = size {
                size_tokens(out, s);
            }
        }
        Type::Sequence(f) => {
            w(out, "SEQUENCE");
            fields_tokens(out, f);
        }
        Type::Set(f) => {
            w(out, "SET");
            fields_tokens(out, f);
        }
        Type::SequenceOf { elem, size } | Type::SetOf { elem, size } => {
            w(out, if matches!(t, Type::SequenceOf { .. }) { "SEQUENCE" } else { "SET" });
            if let Some(s) = size {
                size_tokens(out, s);
            }
            w(out, "OF");
            type_tokens(out, elem);
        }
        Type::Choice { alts, root } => {
            w(out, "CHOICE");
            sym(out, "{");
            for (i, a) in alts.iter().enumerate() {
                if i > 0 {
                    sym(out, ",");
                }
                if *root == Some(i) {
                    sym(out, "...");
                    sym(out, ",");
                }
                w(out, &a.name);
                if let Some(t) = &a.tag {
                    tag_tokens(out, t);
                }
                type_tokens(out, &a.ty);
            }
            if *root == Some(alts.len()) {
                sym(out, ",");
                sym(out, "...");
            }
            sym(out, "}");
        }
        Type::Ref(n) => w(out, n),
    }
}

fn oid_tokens(out: &mut Vec<Tok>, oid: &[OidComp]) {
    sym(out, "{");
    for c in oid {
        match (&c.name, &c.number) {
            (Some(n), Some(v)) => {
                w(out, n);
                sym(out, "(");
                w(out, &v.to_string());
                sym(out, ")");
            }
            (Some(n), None) => w(out, n),
            (None, Some(v)) => w(out, &v.to_string()),
            (None, None) => {}
        }
    }
    sym(out, "}");
}

pub fn value_type_tokens(out: &mut Vec<Tok>, t: &ValueType) {
    match t {
        ValueType::Integer => w(out, "INTEGER"),
        ValueType::Boolean => w(out, "BOOLEAN"),
        ValueType::Str(cs) => w(out, cs.keyword()),
        ValueType::OctetString => {
            w(out, "OCTET");
            w(out, "STRING");
        }
        ValueType::BitString => {
            w(out, "BIT");
            w(out, "STRING");
        }
        ValueType::Named(n) => w(out, n),
    }
}

pub fn module_tokens(m: &Module) -> Vec<Tok> {
    let mut out = Vec::new();
    w(&mut out, &m.name);
    if let Some(oid) = &m.oid {
        oid_tokens(&mut out, oid);
    }
    w(&mut out, "DEFINITIONS");
    match m.tagging {
        Tagging::Automatic => {
            w(&mut out, "AUTOMATIC");
            w(&mut out, "TAGS");
        }
        Tagging::Explicit => {
            w(&mut out, "EXPLICIT");
            w(&mut out, "TAGS");
        }
        Tagging::Implicit => {
            w(&mut out, "IMPLICIT");
            w(&mut out, "TAGS");
        }
        Tagging::Unspecified => {}
    }
    sym(&mut out, "::=");
    w(&mut out, "BEGIN");
    if !m.imports.is_empty() {
        out.push(Tok::Break);
        w(&mut out, "IMPORTS");
        for imp in &m.imports {
            for (i, s) in imp.symbols.iter().enumerate() {
                if i > 0 {
                    sym(&mut out, ",");
                }
                w(&mut out, s);
            }
            w(&mut out, "FROM");
            w(&mut out, &imp.from);
            if let Some(oid) = &imp.oid {
                oid_tokens(&mut out, oid);
            }
        }
        sym(&mut out, ";");
    }
    for a in &m.body {
        out.push(Tok::Break);
        match a {
            Assignment::Type(d) => {
                w(&mut out, &d.name);
                sym(&mut out, "::=");
                if let Some(t) = &d.tag {
                    tag_tokens(&mut out, t);
                }
                type_tokens(&mut out, &d.ty);
            }
            Assignment::Value(v) => {
                w(&mut out, &v.name);
                value_type_tokens(&mut out, &v.ty);
                sym(&mut out, "::=");
                lit_tokens(&mut out, &v.lit);
            }
        }
    }
    out.push(Tok::Break);
    w(&mut out, "END");
    out
}

/// plain layout: one blank between lexical items, one assignment per line
pub fn render_plain(toks: &[Tok]) -> String {
    let mut s = String::new();
    let mut at_line_start = true;
    for t in toks {
        match t {
            Tok::Break => {
                s.push('\n');
                at_line_start = true;
            }
            t => {
                if !at_line_start {
                    s.push(' ');
                }
                s.push_str(t.text());
                at_line_start = false;
            }
        }
    }
    s.push('\n');
    s
}

pub fn module_text(m: &Module) -> String {
    render_plain(&module_tokens(m))
}

pub fn type_text(t: &Type) -> String {
    let mut out = Vec::new();
    type_tokens(&mut out, t);
    render_plain(&out).trim().to_string()
}

#[cfg(test)]
mod tests {
    use super::*;

    #[test]
    fn prints() {
        let m = Module::simple(
            "Zoo",
            vec![Def {
                name: "Top".into(),
                tag: None,
                ty: Type::Sequence(Fields {
                    comps: vec![
                        Comp { name: "a".into(), tag: None, ty: Type::int(-5, 5), presence: Presence::Mandatory },
                        Comp { name: "b".into(), tag: Some(Tag { class: TagClass::Application, number: 3 }), ty: Type::Str { cs: Charset::Ia5, size: Some(Size::range(1, Some(3), true)) }, presence: Presence::Optional },
                        Comp { name: "c".into(), tag: None, ty: Type::Boolean, presence: Presence::Default(DefaultVal { lit: Lit::Bool(true), via: None }) },
                    ],
                    root: Some(2),
                }),
            }],
        );
        assert_eq!(
            module_text(&m),
            "Zoo DEFINITIONS AUTOMATIC TAGS ::= BEGIN\nTop ::= SEQUENCE { a INTEGER ( -5 .. 5 ) , b [ APPLICATION 3 ] IA5String ( SIZE ( 1 .. 3 , ... ) ) OPTIONAL , ... , c BOOLEAN DEFAULT TRUE }\nEND\n"
        );
    }
}
