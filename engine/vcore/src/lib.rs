//! vcore: everything that does not depend on asn1rs — harness plumbing, bit-vector model,
//! abstract schema / value model, ASN.1 printer, reference UPER codec (X.691), protobuf wire
//! decoder. See /verif/DESIGN.md.
pub mod bitmodel;
pub mod canon;
pub mod gen;
pub mod genfront;
pub mod harness;
pub mod layout;
pub mod print;
pub mod proto;
pub mod refcodec;
pub mod refper;
pub mod schema;
pub mod zoo;
