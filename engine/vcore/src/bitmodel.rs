//! Naive bit-vector model (`Vec<bool>`, most significant bit of byte 0 first) — the oracle of C11
//! and the output representation of the reference codec.

pub fn bits_of(bytes: &[u8]) -> Vec<bool> {
    let mut v = Vec::with_capacity(bytes.len() * 8);
    for b in bytes {
        for i in 0..8 {
            v.push(b & (0x80 >> i) != 0);
        }
    }
    v
}

/// Packs bits into bytes, padding the last byte with zero bits.
pub fn bytes_of(bits: &[bool]) -> Vec<u8> {
    let mut v = vec![0u8; (bits.len() + 7) / 8];
    for (i, b) in bits.iter().enumerate() {
        if *b {
            v[i / 8] |= 0x80 >> (i % 8);
        }
    }
    v
}

pub fn bit_at(bytes: &[u8], i: usize) -> bool {
    bytes[i / 8] & (0x80 >> (i % 8)) != 0
}

pub fn set_bit(bytes: &mut [u8], i: usize, b: bool) {
    if b {
        bytes[i / 8] |= 0x80 >> (i % 8);
    } else {
        bytes[i / 8] &= !(0x80 >> (i % 8));
    }
}

pub fn bitstr(bits: &[bool]) -> String {
    bits.iter().map(|b| if *b { '1' } else { '0' }).collect()
}

/// Append-only bit sink used by the reference encoder.
#[derive(Default, Clone, Debug, PartialEq, Eq)]
pub struct BitSink {
    pub bits: Vec<bool>,
}

impl BitSink {
    pub fn new() -> Self {
        Self::default()
    }
    pub fn len(&self) -> usize {
        self.bits.len()
    }
    pub fn is_empty(&self) -> bool {
        self.bits.is_empty()
    }
    pub fn push(&mut self, b: bool) {
        self.bits.push(b);
    }
    /// `value` as unsigned big-endian in `width` bits (width <= 128)
    pub fn push_uint(&mut self, value: u128, width: u32) {
        for i in (0..width).rev() {
            self.bits.push((value >> i) & 1 == 1);
        }
    }
    pub fn push_bytes(&mut self, bytes: &[u8]) {
        for b in bytes {
            self.push_uint(*b as u128, 8);
        }
    }
    pub fn push_bits(&mut self, bits: &[bool]) {
        self.bits.extend_from_slice(bits);
    }
    pub fn pad_to_octet(&mut self) {
        while self.bits.len() % 8 != 0 {
            self.bits.push(false);
        }
    }
    pub fn to_bytes(&self) -> Vec<u8> {
        bytes_of(&self.bits)
    }
}

/// Cursor over bits used by the reference decoder.
#[derive(Clone, Debug)]
pub struct BitSource<'a> {
    pub bits: &'a [bool],
    pub pos: usize,
}

impl<'a> BitSource<'a> {
    pub fn new(bits: &'a [bool]) -> Self {
        Self { bits, pos: 0 }
    }
    pub fn remaining(&self) -> usize {
        self.bits.len() - self.pos
    }
    pub fn bit(&mut self) -> Result<bool, String> {
        if self.pos < self.bits.len() {
            self.pos += 1;
            Ok(self.bits[self.pos - 1])
        } else {
            Err("end of bits".into())
        }
    }
    pub fn uint(&mut self, width: u32) -> Result<u128, String> {
        if self.remaining() < width as usize {
            return Err("end of bits".into());
        }
        let mut v = 0u128;
        for _ in 0..width {
            v = (v << 1) | (self.bits[self.pos] as u128);
            self.pos += 1;
        }
        Ok(v)
    }
    pub fn take(&mut self, n: usize) -> Result<&'a [bool], String> {
        if self.remaining() < n {
            return Err("end of bits".into());
        }
        let s = &self.bits[self.pos..self.pos + n];
        self.pos += n;
        Ok(s)
    }
    pub fn bytes(&mut self, n: usize) -> Result<Vec<u8>, String> {
        let s = self.take(n * 8)?;
        Ok(bytes_of(s))
    }
}
