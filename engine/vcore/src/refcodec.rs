//! Reference UPER encoder/decoder over the abstract schema (DESIGN.md 3.4, Appendix A),
//! written from ITU-T X.691 clause by clause on top of `refper`. Independent of asn1rs.

use crate::bitmodel::{BitSink, BitSource};
use crate::refper as rp;
use crate::schema::*;

pub type R<T> = Result<T, String>;

// ---------------------------------------------------------------------------------------------
// tags (X.680 8.6, 25.x, 31.2 automatic tagging)

pub fn universal_tag(m: &Module, ty: &Type) -> R<Tag> {
    let u = |n| Ok(Tag { class: TagClass::Universal, number: n });
    match ty {
        Type::Boolean => u(1),
        Type::Integer { .. } => u(2),
        Type::BitString { .. } => u(3),
        Type::OctetString { .. } => u(4),
        Type::Null => u(5),
        Type::Enumerated { .. } => u(10),
        Type::Str { cs, .. } => u(cs.universal_tag()),
        Type::Sequence(_) | Type::SequenceOf { .. } => u(16),
        Type::Set(_) | Type::SetOf { .. } => u(17),
        Type::Choice { alts, root } => {
            // untagged CHOICE: the smallest tag of its (root) alternatives (X.680 8.6 / X.691 19.? note)
            let n = root.unwrap_or(alts.len());
            let tags = alt_tags(m, &alts[..n])?;
            tags.into_iter().min().ok_or_else(|| "CHOICE without alternatives".to_string())
        }
        Type::Ref(name) => {
            let d = m.def(name).ok_or_else(|| format!("unknown reference {name}"))?;
            match d.tag {
                Some(t) => Ok(t),
                None => universal_tag(m, &d.ty),
            }
        }
    }
}

fn automatic(m: &Module, any_tagged: bool) -> bool {
    m.tagging == Tagging::Automatic && !any_tagged
}

/// outermost tags of the components of one list (root and additions together: X.680 25.7 applies
/// automatic tagging to the whole ComponentTypeLists)
pub fn comp_tags(m: &Module, comps: &[Comp]) -> R<Vec<Tag>> {
    let any = comps.iter().any(|c| c.tag.is_some());
    comps
        .iter()
        .enumerate()
        .map(|(i, c)| match c.tag {
            Some(t) => Ok(t),
            None if automatic(m, any) => Ok(Tag { class: TagClass::Context, number: i as u32 }),
            None => universal_tag(m, &c.ty),
        })
        .collect()
}

pub fn alt_tags(m: &Module, alts: &[Alt]) -> R<Vec<Tag>> {
    let any = alts.iter().any(|c| c.tag.is_some());
    alts.iter()
        .enumerate()
        .map(|(i, c)| match c.tag {
            Some(t) => Ok(t),
            None if automatic(m, any) => Ok(Tag { class: TagClass::Context, number: i as u32 }),
            None => universal_tag(m, &c.ty),
        })
        .collect()
}

/// encoding order of the components (indices into `f.comps`): SEQUENCE textual; SET: root
/// components in canonical tag order, additions in their order of definition (X.691 21)
pub fn comp_order(m: &Module, f: &Fields, is_set: bool) -> R<Vec<usize>> {
    let n_root = f.root.unwrap_or(f.comps.len());
    let mut order: Vec<usize> = (0..f.comps.len()).collect();
    if is_set {
        let tags = comp_tags_of_fields(m, f)?;
        order[..n_root].sort_by_key(|i| tags[*i]);
    }
    Ok(order)
}

fn comp_tags_of_fields(m: &Module, f: &Fields) -> R<Vec<Tag>> {
    comp_tags(m, &f.comps)
}

/// canonical order of the root alternatives of a CHOICE: position in the returned vector = index
pub fn choice_order(m: &Module, alts: &[Alt], root: Option<usize>) -> R<Vec<usize>> {
    let n_root = root.unwrap_or(alts.len());
    let tags = alt_tags(m, alts)?;
    let mut order: Vec<usize> = (0..n_root).collect();
    order.sort_by_key(|i| tags[*i]);
    Ok(order)
}

// ---------------------------------------------------------------------------------------------
// enumerations (X.680 20: values; X.691 14: indices by ascending value)

/// numeric value of each item (textual order)
pub fn enum_values(items: &[(String, Option<i64>)], root: Option<usize>) -> Vec<i64> {
    let n_root = root.unwrap_or(items.len());
    let mut used: Vec<i64> = items[..n_root].iter().filter_map(|(_, v)| *v).collect();
    let mut vals = Vec::new();
    let mut next = 0i64;
    for (_, v) in &items[..n_root] {
        match v {
            Some(v) => vals.push(*v),
            None => {
                while used.contains(&next) {
                    next += 1;
                }
                vals.push(next);
                used.push(next);
                next += 1;
            }
        }
    }
    // additions: unnumbered ones take the smallest value larger than all previous ones
    let mut last = vals.iter().copied().max().unwrap_or(-1);
    for (_, v) in &items[n_root..] {
        let x = match v {
            Some(v) => *v,
            None => last + 1,
        };
        vals.push(x);
        last = last.max(x);
    }
    vals
}

/// (is_addition, index) of the textual item `idx`
pub fn enum_index(items: &[(String, Option<i64>)], root: Option<usize>, idx: usize) -> (bool, usize) {
    let n_root = root.unwrap_or(items.len());
    let vals = enum_values(items, root);
    if idx < n_root {
        let rank = vals[..n_root].iter().filter(|v| **v < vals[idx]).count();
        (false, rank)
    } else {
        let rank = vals[n_root..].iter().filter(|v| **v < vals[idx]).count();
        (true, rank)
    }
}

// ---------------------------------------------------------------------------------------------
// literals -> values

pub fn lit_value(m: &Module, ty: &Type, lit: &Lit) -> R<Value> {
    let rty = m.resolve(ty);
    let v = match (rty, lit) {
        (Type::Boolean, Lit::Bool(b)) => Value::Bool(*b),
        (Type::Integer { .. }, Lit::Int(i)) => Value::Int(*i),
        (Type::Str { .. }, Lit::Str(s)) => Value::Str(s.clone()),
        (Type::OctetString { .. }, Lit::Hex(b)) => Value::Bytes(b.clone()),
        (Type::BitString { .. }, Lit::Bin(b)) => Value::Bits(b.clone()),
        (Type::BitString { .. }, Lit::Hex(b)) => Value::Bits(crate::bitmodel::bits_of(b)),
        (Type::Enumerated { items, .. }, Lit::EnumItem(n)) => Value::Enum(items.iter().position(|(x, _)| x == n).ok_or_else(|| format!("no item {n}"))?),
        (t, l) => return Err(format!("literal {l:?} does not fit type {}", t.kind())),
    };
    // a reference to an alias definition is a wrapper value
    Ok(wrap_for(m, ty, v))
}

/// wraps `inner` (a value of the resolved type) once per alias definition on the reference chain
pub fn wrap_for(m: &Module, ty: &Type, inner: Value) -> Value {
    let mut depth = 0;
    let mut t = ty;
    while let Type::Ref(n) = t {
        let d = m.def(n).expect("reference");
        if !d.ty.is_own_rust_type() {
            depth += 1;
        }
        t = &d.ty;
    }
    let mut v = inner;
    for _ in 0..depth {
        v = Value::wrap(v);
    }
    v
}

// ---------------------------------------------------------------------------------------------
// encoder

/// Encodes a value of the definition `def` (top level: looks through the alias wrapper).
pub fn encode_def(m: &Module, def: &Def, v: &Value) -> R<BitSink> {
    let mut s = BitSink::new();
    let inner = unwrap_alias(&def.ty, v)?;
    enc_type(m, &def.ty, inner, &mut s)?;
    Ok(s)
}

fn unwrap_alias<'a>(ty: &Type, v: &'a Value) -> R<&'a Value> {
    if ty.is_own_rust_type() {
        Ok(v)
    } else {
        match v {
            Value::Seq(slots) if slots.len() == 1 => slots[0].as_ref().ok_or_else(|| "empty alias wrapper".to_string()),
            other => Err(format!("alias wrapper expected, got {}", other.brief())),
        }
    }
}

fn size_bounds(size: &Option<Size>) -> (Option<u128>, Option<u128>, bool) {
    match size {
        None => (None, None, false),
        Some(s) => (Some(s.lb()), s.ub(), s.ext),
    }
}

fn check_size(size: &Option<Size>, n: usize, what: &str) -> R<()> {
    if let Some(s) = size {
        if !s.ext && !s.contains(n) {
            return Err(format!("{what} size {n} outside non-extensible SIZE constraint"));
        }
    }
    Ok(())
}

pub fn char_bits(cs: Charset) -> u32 {
    match cs {
        Charset::Numeric => 4,
        Charset::Printable | Charset::Ia5 | Charset::Visible => 7,
        Charset::Utf8 => 8,
    }
}

fn enc_char(cs: Charset, c: char, s: &mut BitSink) -> R<()> {
    let alpha = cs.alphabet().expect("known multiplier");
    if !alpha.contains(&c) {
        return Err(format!("character {c:?} not in {}", cs.keyword()));
    }
    match cs {
        // 30.5.4: largest value 57 > 2^4 - 1 => index into the canonically ordered alphabet
        Charset::Numeric => s.push_uint(alpha.iter().position(|x| *x == c).unwrap() as u128, 4),
        // largest value <= 2^7 - 1 => the character value itself
        _ => s.push_uint(c as u128, 7),
    }
    Ok(())
}

pub fn enc_type(m: &Module, ty: &Type, v: &Value, s: &mut BitSink) -> R<()> {
    match (ty, v) {
        (Type::Ref(name), v) => {
            let d = m.def(name).ok_or_else(|| format!("unknown reference {name}"))?;
            let inner = unwrap_alias(&d.ty, v)?;
            enc_type(m, &d.ty, inner, s)
        }
        (Type::Boolean, Value::Bool(b)) => {
            s.push(*b); // 12
            Ok(())
        }
        (Type::Null, Value::Null) => Ok(()), // 24
        (Type::Integer { range, .. }, Value::Int(i)) => {
            // 13
            let (lb, ub, ext) = match range {
                None => (None, None, false),
                Some(r) => (r.lb.as_ref().map(|n| n.value), r.ub.as_ref().map(|n| n.value), r.ext),
            };
            let in_root = lb.map(|l| *i >= l).unwrap_or(true) && ub.map(|u| *i <= u).unwrap_or(true);
            if ext {
                s.push(!in_root);
                if !in_root {
                    rp::enc_unconstrained(s, *i); // 13.1
                    return Ok(());
                }
            } else if !in_root {
                return Err(format!("integer {i} outside its non-extensible range"));
            }
            match (lb, ub) {
                (Some(l), Some(u)) => rp::enc_constrained(s, l, u, *i),
                (Some(l), None) => rp::enc_semi(s, l, *i),
                _ => rp::enc_unconstrained(s, *i),
            }
            Ok(())
        }
        (Type::Enumerated { items, root }, Value::Enum(idx)) => {
            // 14
            if *idx >= items.len() {
                return Err("enumeration index out of range".into());
            }
            let n_root = root.unwrap_or(items.len());
            let (add, rank) = enum_index(items, *root, *idx);
            if root.is_some() {
                s.push(add);
            }
            if add {
                rp::enc_normally_small(s, rank as u128);
            } else {
                rp::enc_constrained(s, 0, n_root as i128 - 1, rank as i128);
            }
            Ok(())
        }
        (Type::BitString { size, .. }, Value::Bits(bits)) => {
            // 16
            check_size(size, bits.len(), "BIT STRING")?;
            let (lb, ub, ext) = size_bounds(size);
            rp::enc_sized(s, lb, ub, ext, bits.len(), &mut |s, a, b| s.push_bits(&bits[a..b]));
            Ok(())
        }
        (Type::OctetString { size }, Value::Bytes(bytes)) => {
            // 17
            check_size(size, bytes.len(), "OCTET STRING")?;
            let (lb, ub, ext) = size_bounds(size);
            rp::enc_sized(s, lb, ub, ext, bytes.len(), &mut |s, a, b| s.push_bytes(&bytes[a..b]));
            Ok(())
        }
        (Type::Str { cs: Charset::Utf8, size }, Value::Str(st)) => {
            // 30.3 … not a known-multiplier type: octets with unconstrained length; the size
            // constraint is not PER-visible, but the value must satisfy it
            check_size(size, st.chars().count(), "UTF8String")?;
            let bytes = st.as_bytes();
            rp::enc_with_length(s, bytes.len(), &mut |s, a, b| s.push_bytes(&bytes[a..b]));
            Ok(())
        }
        (Type::Str { cs, size }, Value::Str(st)) => {
            // 30.5 known-multiplier character strings
            let chars: Vec<char> = st.chars().collect();
            check_size(size, chars.len(), cs.keyword())?;
            let alpha = cs.alphabet().unwrap();
            if let Some(c) = chars.iter().find(|c| !alpha.contains(c)) {
                return Err(format!("character {c:?} not in {}", cs.keyword()));
            }
            let (lb, ub, ext) = size_bounds(size);
            let mut err = None;
            rp::enc_sized(s, lb, ub, ext, chars.len(), &mut |s, a, b| {
                for c in &chars[a..b] {
                    if let Err(e) = enc_char(*cs, *c, s) {
                        err = Some(e);
                    }
                }
            });
            err.map(Err).unwrap_or(Ok(()))
        }
        (Type::Sequence(f), Value::Seq(slots)) => enc_fields(m, f, false, slots, s),
        (Type::Set(f), Value::Seq(slots)) => enc_fields(m, f, true, slots, s),
        (Type::SequenceOf { elem, size }, Value::List(items)) | (Type::SetOf { elem, size }, Value::List(items)) => {
            // 20 / 22 (basic PER: no sorting of SET OF elements)
            check_size(size, items.len(), "list")?;
            let (lb, ub, ext) = size_bounds(size);
            let mut err = None;
            rp::enc_sized(s, lb, ub, ext, items.len(), &mut |s, a, b| {
                for it in &items[a..b] {
                    if let Err(e) = enc_type(m, elem, it, s) {
                        err = Some(e);
                    }
                }
            });
            err.map(Err).unwrap_or(Ok(()))
        }
        (Type::Choice { alts, root }, Value::Choice(idx, inner)) => {
            // 23
            if *idx >= alts.len() {
                return Err("choice index out of range".into());
            }
            let n_root = root.unwrap_or(alts.len());
            if *idx < n_root {
                if root.is_some() {
                    s.push(false);
                }
                let order = choice_order(m, alts, *root)?;
                let pos = order.iter().position(|i| i == idx).unwrap();
                rp::enc_constrained(s, 0, n_root as i128 - 1, pos as i128);
                enc_type(m, &alts[*idx].ty, inner, s)
            } else {
                s.push(true);
                rp::enc_normally_small(s, (*idx - n_root) as u128);
                let mut sub = BitSink::new();
                enc_type(m, &alts[*idx].ty, inner, &mut sub)?;
                rp::enc_open_type(s, &sub);
                Ok(())
            }
        }
        (t, v) => Err(format!("value {} does not fit type {}", v.brief(), t.kind())),
    }
}

/// is the component's slot to be encoded? (DEFAULT equal to its default: no — canonical, 19.5)
fn comp_present(m: &Module, c: &Comp, slot: &Option<Value>) -> R<bool> {
    match (&c.presence, slot) {
        (_, None) => Ok(false),
        (Presence::Default(d), Some(v)) => Ok(&lit_value(m, &c.ty, &d.lit)? != v),
        (_, Some(_)) => Ok(true),
    }
}

fn enc_fields(m: &Module, f: &Fields, is_set: bool, slots: &[Option<Value>], s: &mut BitSink) -> R<()> {
    if slots.len() != f.comps.len() {
        return Err(format!("{} slots for {} components", slots.len(), f.comps.len()));
    }
    let n_root = f.root.unwrap_or(f.comps.len());
    let order = comp_order(m, f, is_set)?;
    let present: Vec<bool> = f.comps.iter().zip(slots).map(|(c, sl)| comp_present(m, c, sl)).collect::<R<_>>()?;
    let any_add = present[n_root..].iter().any(|p| *p);
    if f.root.is_some() {
        s.push(any_add); // 19.1
    }
    // 19.2 / 19.3: preamble bit-map for OPTIONAL / DEFAULT root components
    for &i in order.iter().filter(|i| **i < n_root) {
        let c = &f.comps[i];
        match c.presence {
            Presence::Mandatory => {
                if slots[i].is_none() {
                    return Err(format!("mandatory component {} absent", c.name));
                }
            }
            _ => s.push(present[i]),
        }
    }
    // 19.4
    for &i in order.iter().filter(|i| **i < n_root) {
        if present[i] {
            enc_type(m, &f.comps[i].ty, slots[i].as_ref().unwrap(), s)?;
        }
    }
    if any_add {
        // 19.7 - 19.9
        let n_add = f.comps.len() - n_root;
        rp::enc_normally_small_length(s, n_add);
        for &i in order.iter().filter(|i| **i >= n_root) {
            s.push(present[i]);
        }
        for &i in order.iter().filter(|i| **i >= n_root) {
            if present[i] {
                let mut sub = BitSink::new();
                enc_type(m, &f.comps[i].ty, slots[i].as_ref().unwrap(), &mut sub)?;
                rp::enc_open_type(s, &sub);
            }
        }
    }
    Ok(())
}

// ---------------------------------------------------------------------------------------------
// decoder (inverse; checks canonicity where the primitives do)

pub fn decode_def(m: &Module, def: &Def, bits: &[bool]) -> R<(Value, usize)> {
    let mut r = BitSource::new(bits);
    let v = dec_type(m, &def.ty, &mut r)?;
    let v = if def.ty.is_own_rust_type() { v } else { Value::wrap(v) };
    Ok((v, r.pos))
}

fn dec_char(cs: Charset, r: &mut BitSource) -> R<char> {
    let alpha = cs.alphabet().unwrap();
    match cs {
        Charset::Numeric => {
            let i = r.uint(4)? as usize;
            alpha.get(i).copied().ok_or_else(|| "numeric string index out of range".to_string())
        }
        _ => {
            let c = r.uint(7)? as u8 as char;
            if alpha.contains(&c) {
                Ok(c)
            } else {
                Err(format!("character {c:?} not in {}", cs.keyword()))
            }
        }
    }
}

pub fn dec_type(m: &Module, ty: &Type, r: &mut BitSource) -> R<Value> {
    match ty {
        Type::Ref(name) => {
            let d = m.def(name).ok_or_else(|| format!("unknown reference {name}"))?;
            let v = dec_type(m, &d.ty, r)?;
            Ok(if d.ty.is_own_rust_type() { v } else { Value::wrap(v) })
        }
        Type::Boolean => Ok(Value::Bool(r.bit()?)),
        Type::Null => Ok(Value::Null),
        Type::Integer { range, .. } => {
            let (lb, ub, ext) = match range {
                None => (None, None, false),
                Some(rg) => (rg.lb.as_ref().map(|n| n.value), rg.ub.as_ref().map(|n| n.value), rg.ext),
            };
            if ext && r.bit()? {
                let v = rp::dec_unconstrained(r)?;
                return Ok(Value::Int(v));
            }
            Ok(Value::Int(match (lb, ub) {
                (Some(l), Some(u)) => rp::dec_constrained(r, l, u)?,
                (Some(l), None) => rp::dec_semi(r, l)?,
                _ => rp::dec_unconstrained(r)?,
            }))
        }
        Type::Enumerated { items, root } => {
            let n_root = root.unwrap_or(items.len());
            let vals = enum_values(items, *root);
            if root.is_some() && r.bit()? {
                let rank = rp::dec_normally_small(r)? as usize;
                let mut adds: Vec<usize> = (n_root..items.len()).collect();
                adds.sort_by_key(|i| vals[*i]);
                return adds.get(rank).map(|i| Value::Enum(*i)).ok_or_else(|| "unknown enumeration addition".to_string());
            }
            let rank = rp::dec_constrained(r, 0, n_root as i128 - 1)? as usize;
            let mut roots: Vec<usize> = (0..n_root).collect();
            roots.sort_by_key(|i| vals[*i]);
            Ok(Value::Enum(roots[rank]))
        }
        Type::BitString { size, .. } => {
            let (lb, ub, ext) = size_bounds(size);
            let mut bits = Vec::new();
            rp::dec_sized(r, lb, ub, ext, &mut |r, n| {
                bits.extend_from_slice(r.take(n)?);
                Ok(())
            })?;
            Ok(Value::Bits(bits))
        }
        Type::OctetString { size } => {
            let (lb, ub, ext) = size_bounds(size);
            let mut bytes = Vec::new();
            rp::dec_sized(r, lb, ub, ext, &mut |r, n| {
                bytes.extend(r.bytes(n)?);
                Ok(())
            })?;
            Ok(Value::Bytes(bytes))
        }
        Type::Str { cs: Charset::Utf8, .. } => {
            let mut bytes = Vec::new();
            rp::dec_with_length(r, &mut |r, n| {
                bytes.extend(r.bytes(n)?);
                Ok(())
            })?;
            String::from_utf8(bytes).map(Value::Str).map_err(|e| e.to_string())
        }
        Type::Str { cs, size } => {
            let (lb, ub, ext) = size_bounds(size);
            let mut st = String::new();
            rp::dec_sized(r, lb, ub, ext, &mut |r, n| {
                for _ in 0..n {
                    st.push(dec_char(*cs, r)?);
                }
                Ok(())
            })?;
            Ok(Value::Str(st))
        }
        Type::Sequence(f) => dec_fields(m, f, false, r),
        Type::Set(f) => dec_fields(m, f, true, r),
        Type::SequenceOf { elem, size } | Type::SetOf { elem, size } => {
            let (lb, ub, ext) = size_bounds(size);
            let mut items = Vec::new();
            rp::dec_sized(r, lb, ub, ext, &mut |r, n| {
                for _ in 0..n {
                    items.push(dec_type(m, elem, r)?);
                }
                Ok(())
            })?;
            Ok(Value::List(items))
        }
        Type::Choice { alts, root } => {
            let n_root = root.unwrap_or(alts.len());
            if root.is_some() && r.bit()? {
                let k = rp::dec_normally_small(r)? as usize;
                let octets = rp::dec_open_type(r)?;
                let idx = n_root + k;
                if idx >= alts.len() {
                    return Err("unknown choice addition".into());
                }
                let bits = crate::bitmodel::bits_of(&octets);
                let mut sub = BitSource::new(&bits);
                let v = dec_type(m, &alts[idx].ty, &mut sub)?;
                return Ok(Value::Choice(idx, Box::new(v)));
            }
            let pos = rp::dec_constrained(r, 0, n_root as i128 - 1)? as usize;
            let order = choice_order(m, alts, *root)?;
            let idx = order[pos];
            Ok(Value::Choice(idx, Box::new(dec_type(m, &alts[idx].ty, r)?)))
        }
    }
}

fn dec_fields(m: &Module, f: &Fields, is_set: bool, r: &mut BitSource) -> R<Value> {
    let n_root = f.root.unwrap_or(f.comps.len());
    let order = comp_order(m, f, is_set)?;
    let ext = f.root.is_some() && r.bit()?;
    let mut present = vec![false; f.comps.len()];
    for &i in order.iter().filter(|i| **i < n_root) {
        present[i] = match f.comps[i].presence {
            Presence::Mandatory => true,
            _ => r.bit()?,
        };
    }
    let mut slots: Vec<Option<Value>> = vec![None; f.comps.len()];
    for &i in order.iter().filter(|i| **i < n_root) {
        let c = &f.comps[i];
        if present[i] {
            slots[i] = Some(dec_type(m, &c.ty, r)?);
        } else if let Presence::Default(d) = &c.presence {
            slots[i] = Some(lit_value(m, &c.ty, &d.lit)?);
        }
    }
    let adds: Vec<usize> = order.iter().copied().filter(|i| *i >= n_root).collect();
    if ext {
        let n = rp::dec_normally_small_length(r)?;
        let mut flags = Vec::new();
        for _ in 0..n {
            flags.push(r.bit()?);
        }
        for (k, flag) in flags.iter().enumerate() {
            if !*flag {
                continue;
            }
            let octets = rp::dec_open_type(r)?;
            if let Some(&i) = adds.get(k) {
                let bits = crate::bitmodel::bits_of(&octets);
                let mut sub = BitSource::new(&bits);
                slots[i] = Some(dec_type(m, &f.comps[i].ty, &mut sub)?);
            } // unknown additions are skipped
        }
    }
    for &i in &adds {
        if slots[i].is_none() {
            if let Presence::Default(d) = &f.comps[i].presence {
                slots[i] = Some(lit_value(m, &f.comps[i].ty, &d.lit)?);
            }
        }
    }
    Ok(Value::Seq(slots))
}

#[cfg(test)]
mod tests {
    use super::*;
    use crate::harness::hex;

    fn c(name: &str, tag: Option<Tag>, ty: Type, presence: Presence) -> Comp {
        Comp { name: name.into(), tag, ty, presence }
    }

    /// the worked example of DESIGN.md Appendix A (derived by hand from X.691)
    #[test]
    fn worked_example() {
        let color = Def { name: "Color".into(), tag: None, ty: Type::Enumerated { items: vec![("red".into(), None), ("green".into(), None), ("blue".into(), None)], root: Some(2) } };
        let inner = Def {
            name: "Inner".into(),
            tag: None,
            ty: Type::Set(Fields {
                comps: vec![
                    c("z", Some(Tag { class: TagClass::Private, number: 1 }), Type::Boolean, Presence::Mandatory),
                    c("y", Some(Tag { class: TagClass::Application, number: 2 }), Type::int(0, 7), Presence::Optional),
                    c("x", Some(Tag { class: TagClass::Context, number: 0 }), Type::Ref("Color".into()), Presence::Default(DefaultVal { lit: Lit::EnumItem("green".into()), via: None })),
                ],
                root: None,
            }),
        };
        let top = Def {
            name: "Top".into(),
            tag: None,
            ty: Type::Sequence(Fields {
                comps: vec![
                    c("a", None, Type::int(-5, 5), Presence::Mandatory),
                    c("b", None, Type::Ref("Inner".into()), Presence::Mandatory),
                    c(
                        "c",
                        None,
                        Type::Choice {
                            alts: vec![
                                Alt { name: "n".into(), tag: None, ty: Type::Null },
                                Alt { name: "l".into(), tag: None, ty: Type::SequenceOf { elem: Box::new(Type::Ref("Inner".into())), size: None } },
                                Alt { name: "s".into(), tag: None, ty: Type::Str { cs: Charset::Ia5, size: Some(Size::range(1, Some(3), false)) } },
                            ],
                            root: Some(2),
                        },
                        Presence::Optional,
                    ),
                    c("d", None, Type::BitString { size: Some(Size::fixed(4, false)), named: vec![] }, Presence::Mandatory),
                    c("e", None, Type::OctetString { size: None }, Presence::Optional),
                ],
                root: Some(3),
            }),
        };
        let m = Module::simple("Zoo", vec![color, inner, top.clone()]);
        let v = Value::Seq(vec![
            Some(Value::Int(-3)),
            Some(Value::Seq(vec![Some(Value::Bool(true)), Some(Value::Int(6)), Some(Value::Enum(2))])),
            Some(Value::Choice(1, Box::new(Value::List(vec![Value::Seq(vec![Some(Value::Bool(false)), None, Some(Value::Enum(1))])])))),
            Some(Value::Bits(vec![true, false, true, false])),
            Some(Value::Bytes(vec![1, 2, 3])),
        ]);
        let s = encode_def(&m, &top, &v).unwrap();
        assert_eq!(s.len(), 98);
        assert_eq!(hex(&s.to_bytes()), "cbd0140401c0680100c04080c0");
        let (back, used) = decode_def(&m, &top, &s.bits).unwrap();
        assert_eq!(used, 98);
        assert_eq!(back, v);
    }

    #[test]
    fn pinned_vectors_from_repo_tests() {
        // tests/basic_set.rs: Basic ::= [5] SET { abc [APPLICATION 7] UTF8String, def INTEGER } -> def, abc
        let basic = Def {
            name: "Basic".into(),
            tag: Some(Tag { class: TagClass::Context, number: 5 }),
            ty: Type::Set(Fields {
                comps: vec![
                    c("abc", Some(Tag { class: TagClass::Application, number: 7 }), Type::Str { cs: Charset::Utf8, size: None }, Presence::Mandatory),
                    c("def", None, Type::Integer { range: None, named: vec![] }, Presence::Mandatory),
                ],
                root: None,
            }),
        };
        let m = Module::simple("BasicSet", vec![basic.clone()]);
        let v = Value::Seq(vec![Some(Value::Str("hello world".into())), Some(Value::Int(778))]);
        let s = encode_def(&m, &basic, &v).unwrap();
        assert_eq!(hex(&s.to_bytes()), "02030a0b68656c6c6f20776f726c64");
        assert_eq!(s.len(), 8 * 15);
    }
}
