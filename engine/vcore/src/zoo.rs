//! The type zoo: lists of abstract modules that are compiled through the real asn1rs pipeline
//! (`asn_to_rust!`) and registered for the run-time checks (DESIGN.md 2.2).

use crate::gen::{self, Profile};
use crate::schema::*;
use proptest::strategy::{Strategy, ValueTree};
use proptest::test_runner::{Config, RngAlgorithm, TestRng, TestRunner};
use serde::{Deserialize, Serialize};

#[derive(Clone, Debug, Serialize, Deserialize)]
pub struct ZooModule {
    pub module: Module,
    /// all definitions are inside DESIGN.md section 4
    pub conformance: bool,
    /// "sys", "rand", "c03", "c05", "c16"
    pub group: String,
    #[serde(default)]
    pub meta: serde_json::Value,
}

fn int(lb: Option<i128>, ub: Option<i128>, ext: bool) -> Type {
    Type::Integer { range: Some(Range { lb: lb.map(Num::lit), ub: ub.map(Num::lit), ext }), named: vec![] }
}

fn comp(name: &str, ty: Type, presence: Presence) -> Comp {
    Comp { name: name.into(), tag: None, ty, presence }
}

fn names(prefix: &str, n: usize) -> Vec<(String, Option<i64>)> {
    (0..n).map(|i| (format!("{prefix}{i}"), None)).collect()
}

/// (type, in conformance profile?)
pub fn leaf_forms() -> Vec<(Type, bool)> {
    let mut v: Vec<(Type, bool)> = Vec::new();
    v.push((Type::Boolean, true));
    v.push((Type::Null, true));
    // INTEGER
    v.push((Type::Integer { range: None, named: vec![] }, true));
    v.push((Type::Integer { range: None, named: vec![("numA".into(), 1), ("numB".into(), 5)] }, true));
    for (lb, ub) in [(0i128, 7i128), (-5, 5), (0, 255), (0, 256), (0, 65535), (0, 65536), (-128, 127), (-129, 127), (5, 5), (-7, -7), (0, 4294967295), (1, 4294967296), (-1, 1), (0, 1), (-2147483648, 2147483647), (0, i64::MAX as i128 - 1), (i64::MIN as i128, -1), (-4611686018427387904, 4611686018427387903), (100, 1123)] {
        v.push((int(Some(lb), Some(ub), false), true));
    }
    for (lb, ub) in [(0i128, 7i128), (-5, 5), (5, 5), (0, 255), (-1000, 1000), (0, 65535)] {
        v.push((int(Some(lb), Some(ub), true), true));
    }
    for (lb, ub, ext) in [(Some(0i128), None, false), (Some(1), None, false), (Some(-5), None, false), (None, Some(5i128), false), (None, None, false), (Some(1), None, true), (None, None, true), (Some(i64::MIN as i128), Some(i64::MAX as i128), false)] {
        v.push((int(lb, ub, ext), false));
    }
    // ENUMERATED
    v.push((Type::Enumerated { items: names("e", 1), root: None }, true));
    v.push((Type::Enumerated { items: names("e", 2), root: None }, true));
    v.push((Type::Enumerated { items: names("e", 3), root: None }, true));
    v.push((Type::Enumerated { items: names("e", 9), root: None }, true));
    v.push((Type::Enumerated { items: names("e", 2), root: Some(2) }, true));
    v.push((Type::Enumerated { items: names("e", 5), root: Some(3) }, true));
    v.push((Type::Enumerated { items: names("e", 1), root: Some(1) }, true));
    v.push((Type::Enumerated { items: names("e", 70), root: Some(2) }, true));
    v.push((Type::Enumerated { items: names("e", 130), root: None }, true));
    v.push((Type::Enumerated { items: vec![("e0".into(), Some(1)), ("e1".into(), Some(5)), ("e2".into(), Some(300))], root: None }, true));
    v.push((Type::Enumerated { items: vec![("e0".into(), Some(7)), ("e1".into(), Some(2)), ("e2".into(), Some(4))], root: None }, false));
    // sizes
    let sizes: Vec<(Option<Size>, bool)> = vec![
        (None, true),
        (Some(Size::fixed(0, false)), true),
        (Some(Size::fixed(1, false)), true),
        (Some(Size::fixed(4, false)), true),
        (Some(Size::fixed(8, false)), true),
        (Some(Size::fixed(16, false)), true),
        (Some(Size::fixed(17, false)), true),
        (Some(Size::range(0, Some(7), false)), true),
        (Some(Size::range(1, Some(16), false)), true),
        (Some(Size::range(3, Some(4), false)), true),
        (Some(Size::range(0, Some(255), false)), true),
        (Some(Size::range(0, Some(256), false)), true),
        (Some(Size::range(0, Some(65535), false)), true),
        (Some(Size::range(0, Some(65536), false)), true),
        (Some(Size::range(1, Some(70000), false)), true),
        (Some(Size::range(5, None, false)), true),
        (Some(Size::range(1, None, false)), true),
        (Some(Size::range(1, None, true)), true),
        (Some(Size::fixed(4, true)), true),
        (Some(Size::fixed(0, true)), true),
        (Some(Size::range(1, Some(4), true)), true),
        (Some(Size::range(2, Some(300), true)), true),
        (Some(Size::range(16384, Some(16390), false)), true),
        (Some(Size::fixed(16384, false)), true),
        (Some(Size::fixed(65536, false)), true),
        (Some(Size::range(65536, Some(65540), false)), true),
    ];
    for (s, c) in &sizes {
        v.push((Type::BitString { size: s.clone(), named: vec![] }, *c));
        v.push((Type::OctetString { size: s.clone() }, *c));
    }
    v.push((Type::BitString { size: None, named: vec![("bitA".into(), 0), ("bitB".into(), 1), ("bitC".into(), 4), ("bitD".into(), 7)] }, false));
    let str_sizes: Vec<Option<Size>> = vec![
        None,
        Some(Size::fixed(3, false)),
        Some(Size::range(1, Some(3), false)),
        Some(Size::range(0, Some(255), false)),
        Some(Size::range(1, Some(3), true)),
        Some(Size::fixed(2, true)),
        Some(Size::range(1, None, false)),
        Some(Size::range(0, Some(65535), false)),
        Some(Size::range(0, Some(65536), false)),
        Some(Size::range(2, Some(70000), true)),
    ];
    for cs in [Charset::Utf8, Charset::Ia5, Charset::Numeric, Charset::Printable, Charset::Visible] {
        for s in &str_sizes {
            v.push((Type::Str { cs, size: s.clone() }, true));
        }
    }
    // lists
    let list_sizes: Vec<Option<Size>> = vec![
        None,
        Some(Size::fixed(0, false)),
        Some(Size::fixed(3, false)),
        Some(Size::range(1, Some(4), false)),
        Some(Size::range(0, Some(255), false)),
        Some(Size::range(0, Some(65535), false)),
        Some(Size::range(0, Some(65536), false)),
        Some(Size::range(1, None, false)),
        Some(Size::range(1, Some(4), true)),
        Some(Size::fixed(2, true)),
        Some(Size::range(16384, Some(16385), false)),
    ];
    for s in &list_sizes {
        v.push((Type::SequenceOf { elem: Box::new(Type::Boolean), size: s.clone() }, true));
        v.push((Type::SetOf { elem: Box::new(int(Some(0), Some(7), false)), size: s.clone() }, true));
    }
    v.push((Type::SequenceOf { elem: Box::new(Type::Null), size: None }, true));
    v.push((Type::SequenceOf { elem: Box::new(Type::Null), size: Some(Size::range(0, Some(3), true)) }, true));
    v.push((Type::SequenceOf { elem: Box::new(Type::SequenceOf { elem: Box::new(int(Some(0), Some(3), false)), size: Some(Size::range(0, Some(3), false)) }), size: Some(Size::range(0, Some(3), false)) }, true));
    v.push((
        Type::SequenceOf {
            elem: Box::new(Type::Sequence(Fields { comps: vec![comp("a", int(Some(0), Some(7), false), Presence::Mandatory), comp("b", Type::Boolean, Presence::Optional)], root: None })),
            size: Some(Size::range(0, Some(5), false)),
        },
        true,
    ));
    v.push((Type::SetOf { elem: Box::new(Type::Str { cs: Charset::Ia5, size: Some(Size::range(1, Some(3), false)) }), size: None }, true));
    v.push((
        Type::SequenceOf {
            elem: Box::new(Type::Choice { alts: vec![Alt { name: "c0".into(), tag: None, ty: Type::Boolean }, Alt { name: "c1".into(), tag: None, ty: int(Some(0), Some(255), false) }], root: Some(1) }),
            size: None,
        },
        true,
    ));
    v
}

/// The position module around one leaf form: the form as top-level alias, as SEQUENCE
/// component (mandatory / OPTIONAL / extension additions / DEFAULT where supported), as CHOICE
/// alternative (root and addition), as list element and through a reference.
pub fn position_module(idx: usize, leaf: &Type, conformance: bool) -> ZooModule {
    let name = format!("Sys{idx}");
    let mut defs = Vec::new();
    defs.push(Def { name: "Ty0".into(), tag: None, ty: leaf.clone() });
    let l = || leaf.clone();
    defs.push(Def {
        name: "Ty1".into(),
        tag: None,
        ty: Type::Sequence(Fields {
            comps: vec![
                comp("f0", Type::Boolean, Presence::Mandatory),
                comp("f1", l(), Presence::Mandatory),
                comp("f2", l(), Presence::Optional),
                comp("f3", int(Some(0), Some(255), false), Presence::Mandatory),
                comp("f4", l(), Presence::Mandatory),
                comp("f5", l(), Presence::Optional),
                comp("f6", Type::Boolean, Presence::Optional),
            ],
            root: Some(4),
        }),
    });
    defs.push(Def {
        name: "Ty2".into(),
        tag: None,
        ty: Type::Choice { alts: vec![Alt { name: "c0".into(), tag: None, ty: l() }, Alt { name: "c1".into(), tag: None, ty: Type::Null }, Alt { name: "c2".into(), tag: None, ty: l() }, Alt { name: "c3".into(), tag: None, ty: Type::Boolean }], root: Some(2) },
    });
    // (an inline constructed element of a *top-level* list collides with the list's own name in the
    //  generated Rust - known finding C09 "toplevel-list-of-inline-constructed"; use a reference there)
    let elem = if leaf.is_own_rust_type() { Type::Ref("Ty0".into()) } else { l() };
    defs.push(Def { name: "Ty3".into(), tag: None, ty: Type::SequenceOf { elem: Box::new(elem), size: Some(Size::range(0, Some(3), false)) } });
    defs.push(Def {
        name: "Ty4".into(),
        tag: None,
        ty: Type::Set(Fields { comps: vec![comp("f0", Type::Ref("Ty0".into()), Presence::Mandatory), comp("f1", Type::Ref("Ty0".into()), Presence::Optional), comp("f2", Type::Ref("Ty0".into()), Presence::Mandatory)], root: Some(2) }),
    });
    let mut m = Module::simple(&name, defs);
    sanitize_for_zoo(&mut m);
    // DEFAULT where asn1rs documents support for it
    if let Some(lit) = gen::default_literal(&m, &Type::Ref("Ty0".into()), idx as u64 * 7 + 3).or_else(|| gen::default_literal(&m, leaf, idx as u64 * 7 + 3)) {
        let by_ref = matches!(leaf, Type::Enumerated { .. });
        let t = || if by_ref { Type::Ref("Ty0".into()) } else { leaf.clone() };
        let d = || Presence::Default(DefaultVal { lit: lit.clone(), via: None });
        m.body.push(Assignment::Type(Def {
            name: "Ty5".into(),
            tag: None,
            ty: Type::Sequence(Fields { comps: vec![comp("f0", t(), d()), comp("f1", Type::Boolean, Presence::Mandatory), comp("f2", t(), d()), comp("f3", Type::Boolean, Presence::Optional), comp("f4", t(), d())], root: Some(3) }),
        }));
    }
    ZooModule { module: m, conformance, group: "sys".into(), meta: serde_json::json!({"leaf": crate::print::type_text(leaf)}) }
}

pub fn systematic() -> Vec<ZooModule> {
    leaf_forms().iter().enumerate().map(|(i, (t, c))| position_module(i, t, *c)).collect()
}

/// deterministic sample of a strategy (constant seed -> identical zoo on every run)
pub fn sample<S: Strategy>(s: &S, seed: u64, n: usize) -> Vec<S::Value> {
    let mut bytes = [0u8; 32];
    bytes[..8].copy_from_slice(&seed.to_le_bytes());
    bytes[8] = 0xA5;
    let rng = TestRng::from_seed(RngAlgorithm::ChaCha, &bytes);
    let mut runner = TestRunner::new_with_rng(Config::default(), rng);
    (0..n).map(|_| s.new_tree(&mut runner).expect("strategy").current()).collect()
}

/// Rewrites shapes that asn1rs is known to turn into uncompilable Rust (open C09 findings), so
/// that the run-time zoo builds. Returns the number of rewrites.
fn sanitize_type(t: &mut Type, aliases: &[String], n: &mut usize) {
    match t {
        // named bits, and named numbers on anything but a finite non-extensible range, do not
        // compile (constants of the wrong type; open C09 finding "named-constants-type")
        Type::BitString { named, .. } if !named.is_empty() => {
            named.clear();
            *n += 1;
        }
        Type::Integer { named, .. } if !named.is_empty() => {
            named.clear();
            *n += 1;
        }
        // (MIN..negative) becomes an unsigned Rust type with a negated constant (open C09/C15 finding)
        Type::Integer { range: Some(r), .. } if r.lb.is_none() && r.ub.as_ref().map(|u| u.value < 0).unwrap_or(false) => {
            r.ub = Some(Num::lit(5));
            *n += 1;
        }
        Type::Sequence(f) | Type::Set(f) => {
            for c in &mut f.comps {
                // DEFAULT through a reference to an alias of a primitive type: the constant has the
                // primitive's type (open C09 finding "default-through-alias")
                if let (Presence::Default(_), Type::Ref(r)) = (&c.presence, &c.ty) {
                    if aliases.contains(r) {
                        c.presence = Presence::Optional;
                        *n += 1;
                    }
                }
                sanitize_type(&mut c.ty, aliases, n);
                // (MIN..ub) is an unsigned Rust type (open C15 finding): a negative DEFAULT does not compile
                if let (Presence::Default(d), Type::Integer { range: Some(r), .. }) = (&mut c.presence, &c.ty) {
                    if r.lb.is_none() && !r.ext && matches!(d.lit, Lit::Int(v) if v < 0) {
                        d.lit = Lit::Int(0);
                        *n += 1;
                    }
                }
            }
        }
        Type::SequenceOf { elem, .. } | Type::SetOf { elem, .. } => sanitize_type(elem, aliases, n),
        Type::Choice { alts, .. } => {
            for a in alts {
                sanitize_type(&mut a.ty, aliases, n);
            }
        }
        _ => {}
    }
}

pub fn sanitize_for_zoo(m: &mut Module) -> usize {
    let mut n = 0;
    let aliases: Vec<String> = m.defs().filter(|d| !d.ty.is_own_rust_type()).map(|d| d.name.clone()).collect();
    for a in &mut m.body {
        if let Assignment::Type(d) = a {
            sanitize_type(&mut d.ty, &aliases, &mut n);
            // top-level SEQUENCE OF / SET OF whose (possibly nested list) element is an inline
            // constructed type: wrap the list into a one-component SEQUENCE
            let mut t = &d.ty;
            let mut is_list = false;
            while let Type::SequenceOf { elem, .. } | Type::SetOf { elem, .. } = t {
                is_list = true;
                t = elem;
            }
            if is_list && t.is_own_rust_type() {
                let inner = d.ty.clone();
                d.ty = Type::Sequence(Fields { comps: vec![comp("f0", inner, Presence::Mandatory)], root: None });
                n += 1;
            }
        }
    }
    n
}

pub fn random_modules(seed: u64, n_conf: usize, n_rt: usize) -> Vec<ZooModule> {
    let mut out = Vec::new();
    let conf = gen::module_strategy(Profile::Conformance, "Rnd".into(), 2, 3);
    for (i, mut m) in sample(&conf, seed, n_conf).into_iter().enumerate() {
        m.name = format!("RndC{i}");
        sanitize_for_zoo(&mut m);
        out.push(ZooModule { module: m, conformance: true, group: "rand".into(), meta: serde_json::Value::Null });
    }
    let rt = gen::module_strategy(Profile::Roundtrip, "Rnd".into(), 2, 3);
    for (i, mut m) in sample(&rt, seed ^ 0x5555, n_rt).into_iter().enumerate() {
        m.name = format!("RndR{i}");
        sanitize_for_zoo(&mut m);
        out.push(ZooModule { module: m, conformance: false, group: "rand".into(), meta: serde_json::Value::Null });
    }
    out
}

/// Member names that contain each other: the generated code finds the member in front of the
/// extension marker by name (`extensible_after(<name>)`), so an earlier root member whose name
/// contains the last root member's name (and the other way round, and a common prefix) must not
/// move the marker. One module with the four extensible kinds in three naming patterns each.
pub fn name_containment_module() -> ZooModule {
    let patterns: [[&str; 3]; 3] = [["red-dark", "red", "blue"], ["flag", "flag-extra", "more"], ["value-list", "value", "value-x"]];
    let mut defs = Vec::new();
    for (k, [a, b, ext]) in patterns.iter().enumerate() {
        defs.push(Def { name: format!("NcEnum{k}"), tag: None, ty: Type::Enumerated { items: vec![(a.to_string(), None), (b.to_string(), None), (ext.to_string(), None)], root: Some(2) } });
        defs.push(Def {
            name: format!("NcChoice{k}"),
            tag: None,
            ty: Type::Choice { alts: vec![Alt { name: a.to_string(), tag: None, ty: Type::Boolean }, Alt { name: b.to_string(), tag: None, ty: Type::int(0, 255) }, Alt { name: ext.to_string(), tag: None, ty: Type::Null }], root: Some(2) },
        });
        let comps = vec![comp(a, Type::Boolean, Presence::Mandatory), comp(b, Type::int(0, 255), Presence::Optional), comp(ext, Type::Boolean, Presence::Optional)];
        defs.push(Def { name: format!("NcSeq{k}"), tag: None, ty: Type::Sequence(Fields { comps: comps.clone(), root: Some(2) }) });
        defs.push(Def { name: format!("NcSet{k}"), tag: None, ty: Type::Set(Fields { comps, root: Some(2) }) });
    }
    ZooModule { module: Module::simple("NameContainment", defs), conformance: true, group: "names".into(), meta: serde_json::Value::Null }
}

/// Many members: field / alternative numbers beyond 15 (two-octet protobuf keys start at 16) and
/// beyond 31, presence bitmaps longer than a word of 32, choice indices beyond 31.
pub fn many_members_module() -> ZooModule {
    let ty = |i: usize| match i % 5 {
        0 => Type::int(0, 255),
        1 => Type::Boolean,
        2 => Type::Str { cs: Charset::Utf8, size: Some(Size::range(0, Some(3), false)) },
        3 => Type::int(-8, 7),
        _ => Type::OctetString { size: Some(Size::range(0, Some(2), false)) },
    };
    let seq = Type::Sequence(Fields { comps: (0..40).map(|i| comp(&format!("m{i}"), ty(i), if i % 3 == 1 { Presence::Optional } else { Presence::Mandatory })).collect(), root: None });
    let set = Type::Set(Fields {
        comps: (0..20)
            .map(|i| {
                let mut c = comp(&format!("m{i}"), ty(i), if i % 4 == 2 { Presence::Optional } else { Presence::Mandatory });
                c.tag = Some(Tag { class: TagClass::Context, number: (19 - i) as u32 });
                c
            })
            .collect(),
        root: None,
    });
    let choice = Type::Choice { alts: (0..40).map(|i| Alt { name: format!("a{i}"), tag: None, ty: ty(i) }).collect(), root: None };
    let ext_seq = Type::Sequence(Fields { comps: (0..36).map(|i| comp(&format!("m{i}"), ty(i), if i >= 2 { Presence::Optional } else { Presence::Mandatory })).collect(), root: Some(2) });
    ZooModule {
        module: Module::simple("ManyMembers", vec![Def { name: "Seq40".into(), tag: None, ty: seq }, Def { name: "Set20".into(), tag: None, ty: set }, Def { name: "Choice40".into(), tag: None, ty: choice }, Def { name: "Ext34".into(), tag: None, ty: ext_seq }]),
        conformance: true,
        group: "many".into(),
        meta: serde_json::Value::Null,
    }
}

/// C03 beyond the exhaustively enumerated sizes: SEQUENCE / SET types with 63..130 OPTIONAL/DEFAULT root
/// components and extensible SEQUENCEs with 63..70 extension additions (flag runs around the 64 bit mark;
/// the presence patterns of these are sampled, not enumerated)
pub fn c03_wide_module() -> ZooModule {
    let ty = |i: usize| match i % 3 {
        0 => Type::int(0, 255),
        1 => Type::Boolean,
        _ => Type::int(-8, 7),
    };
    let pres = |i: usize| if i % 7 == 3 && i % 3 != 1 { Presence::Default(DefaultVal { lit: Lit::Int(5), via: None }) } else { Presence::Optional };
    let mut defs = Vec::new();
    for n in [63usize, 64, 65, 70, 130] {
        defs.push(Def { name: format!("W{n}"), tag: None, ty: Type::Sequence(Fields { comps: (0..n).map(|i| comp(&format!("m{i}"), ty(i), pres(i))).collect(), root: None }) });
    }
    defs.push(Def { name: "Wset65".into(), tag: None, ty: Type::Set(Fields { comps: (0..65).map(|i| comp(&format!("m{i}"), ty(i), pres(i))).collect(), root: None }) });
    for n in [63usize, 64, 65, 70] {
        let mut comps = vec![comp("r0", Type::int(0, 255), Presence::Mandatory)];
        comps.extend((0..n).map(|i| comp(&format!("x{i}"), ty(i), Presence::Optional)));
        defs.push(Def { name: format!("X{n}"), tag: None, ty: Type::Sequence(Fields { comps, root: Some(1) }) });
    }
    ZooModule { module: Module::simple("C03Wide", defs), conformance: true, group: "c03wide".into(), meta: serde_json::Value::Null }
}

/// families added to the frozen fixed zoo after it was frozen (`zoogen <dir> append-extra`)
pub fn extra_modules() -> Vec<ZooModule> {
    let mut out = Vec::new();
    for p in C05_EXTRA_PAIRS {
        let (a, b) = c05_pair(p);
        out.push(a);
        out.push(b);
    }
    out.push(name_containment_module());
    out.extend(c03_nested_shapes());
    out.push(many_members_module());
    out.push(c03_wide_module());
    out
}

pub const FIXED_SEED: u64 = 20260925;

pub fn fixed_zoo() -> Vec<ZooModule> {
    let mut z = systematic();
    z.extend(random_modules(FIXED_SEED, 60, 40));
    z.extend(c03_shapes(3));
    z.extend(c05_pairs(60));
    z.extend(c16_modules(40));
    z
}

/// the additional, seed-dependent part of the thorough tier's zoo
pub fn seeded_zoo(seed: u64) -> Vec<ZooModule> {
    let mut z = random_modules(seed.wrapping_mul(0x9E3779B97F4A7C15) ^ 0x1234, 400, 250);
    for (i, m) in z.iter_mut().enumerate() {
        m.module.name = format!("Seeded{i}");
        m.group = "seeded".into();
    }
    z
}

// ---------------------------------------------------------------------------------------------
// C03: every SEQUENCE/SET shape with <= n_max components

/// component type of slot `i` in shape number `k` (rotating, pairwise distinctive widths incl. zero width)
fn c03_type(i: usize, k: usize, kind: u8) -> (Type, Option<Lit>) {
    let r = (i + k) % 6;
    // NULL has no DEFAULT (README: unsupported); take the next type for DEFAULT slots
    let r = if r == 5 && kind == 2 { 0 } else { r };
    match r {
        0 => (Type::int(0, 255), Some(Lit::Int(7))),
        1 => (Type::Boolean, Some(Lit::Bool(true))),
        2 => (Type::Str { cs: Charset::Ia5, size: Some(Size::range(1, Some(3), false)) }, Some(Lit::Str("ab".into()))),
        3 => (Type::int(-8, 7), Some(Lit::Int(-3))),
        4 => (Type::Ref("En".into()), Some(Lit::EnumItem("b".into()))),
        _ => (Type::Null, None),
    }
}

/// all shapes with n <= n_max components: kinds in {mandatory, OPTIONAL, DEFAULT}^n x marker position
pub fn c03_shapes(n_max: usize) -> Vec<ZooModule> {
    let mut shapes: Vec<(Vec<u8>, Option<usize>)> = Vec::new();
    for n in 0..=n_max {
        let combos = 3usize.pow(n as u32);
        for c in 0..combos {
            let kinds: Vec<u8> = (0..n).map(|i| ((c / 3usize.pow(i as u32)) % 3) as u8).collect();
            shapes.push((kinds.clone(), None));
            for after in 0..n {
                shapes.push((kinds.clone(), Some(after + 1)));
            }
        }
    }
    let mut out = Vec::new();
    for is_set in [false, true] {
        for (chunk_no, chunk) in shapes.chunks(12).enumerate() {
            let mut defs = vec![Def { name: "En".into(), tag: None, ty: Type::Enumerated { items: vec![("a".into(), None), ("b".into(), None), ("c".into(), None)], root: None } }];
            for (j, (kinds, root)) in chunk.iter().enumerate() {
                let k = chunk_no * 12 + j;
                let n = kinds.len();
                let n_root = root.unwrap_or(n);
                let comps: Vec<Comp> = kinds
                    .iter()
                    .enumerate()
                    .map(|(i, kind)| {
                        let (ty, lit) = c03_type(i, k, *kind);
                        // SET: explicit context tags that reverse the root order; additions ascending
                        let tag = if is_set { Some(Tag { class: TagClass::Context, number: if i < n_root { (n_root - 1 - i) as u32 } else { (10 + i) as u32 } }) } else { None };
                        Comp {
                            name: format!("f{i}"),
                            tag,
                            ty,
                            presence: match kind {
                                0 => Presence::Mandatory,
                                1 => Presence::Optional,
                                _ => Presence::Default(DefaultVal { lit: lit.expect("default literal"), via: None }),
                            },
                        }
                    })
                    .collect();
                let f = Fields { comps, root: *root };
                defs.push(Def { name: format!("Ty{k}"), tag: None, ty: if is_set { Type::Set(f) } else { Type::Sequence(f) } });
            }
            let name = format!("C03{}{}", if is_set { "T" } else { "S" }, chunk_no);
            out.push(ZooModule { module: Module::simple(&name, defs), conformance: true, group: "c03".into(), meta: serde_json::json!({"n_max": n_max}) });
        }
    }
    out
}

/// C03, second family: components whose types bring a scope of their own - a reference to an alias
/// of INTEGER (a one-field wrapper struct), a reference to a plain SEQUENCE (all components
/// mandatory, no marker), an inline plain SEQUENCE - in every shape with <= 2 components.
/// (DEFAULT slots keep a plain INTEGER: DEFAULT through an alias is an open C09 finding.)
pub fn c03_nested_shapes() -> Vec<ZooModule> {
    let mut shapes: Vec<(Vec<u8>, Option<usize>)> = Vec::new();
    for n in 1..=2usize {
        for c in 0..3usize.pow(n as u32) {
            let kinds: Vec<u8> = (0..n).map(|i| ((c / 3usize.pow(i as u32)) % 3) as u8).collect();
            shapes.push((kinds.clone(), None));
            for after in 0..n {
                shapes.push((kinds.clone(), Some(after + 1)));
            }
        }
    }
    let plain = || Type::Sequence(Fields { comps: vec![comp("q", Type::int(0, 1), Presence::Mandatory), comp("r", Type::Boolean, Presence::Mandatory)], root: None });
    let mut out = Vec::new();
    for is_set in [false, true] {
        let mut defs = vec![Def { name: "AliasInt".into(), tag: None, ty: Type::int(0, 255) }, Def { name: "PlainSeq".into(), tag: None, ty: plain() }];
        for (k, (kinds, root)) in shapes.iter().enumerate() {
            let n_root = root.unwrap_or(kinds.len());
            let comps: Vec<Comp> = kinds
                .iter()
                .enumerate()
                .map(|(i, kind)| {
                    let ty = match (kind, (i + k) % 3) {
                        (2, _) => Type::int(0, 255),
                        (_, 0) => Type::Ref("AliasInt".into()),
                        (_, 1) => Type::Ref("PlainSeq".into()),
                        _ => plain(),
                    };
                    let tag = if is_set { Some(Tag { class: TagClass::Context, number: if i < n_root { (n_root - 1 - i) as u32 } else { (10 + i) as u32 } }) } else { None };
                    Comp {
                        name: format!("f{i}"),
                        tag,
                        ty,
                        presence: match kind {
                            0 => Presence::Mandatory,
                            1 => Presence::Optional,
                            _ => Presence::Default(DefaultVal { lit: Lit::Int(7), via: None }),
                        },
                    }
                })
                .collect();
            let f = Fields { comps, root: *root };
            defs.push(Def { name: format!("Ty{k}"), tag: None, ty: if is_set { Type::Set(f) } else { Type::Sequence(f) } });
        }
        out.push(ZooModule { module: Module::simple(if is_set { "C03NestedT" } else { "C03NestedS" }, defs), conformance: true, group: "c03".into(), meta: serde_json::json!({"n_max": 2, "family": "nested"}) });
    }
    out
}

// ---------------------------------------------------------------------------------------------
// C05: schema version pairs (V2 = V1 + appended extension additions)

fn octets(n: u64) -> Type {
    Type::OctetString { size: Some(Size::fixed(n, false)) }
}

/// addition types whose open-type encodings fall into the three length classes
/// 1..63, 64..127 and 128..300 octets (the first length octet starts with 00, 01, 10)
fn c05_addition(k: usize, salt: usize) -> (Type, Presence) {
    let pick = (k * 7 + salt * 3) % 12;
    let ty = match pick {
        0 => Type::Boolean,
        1 => octets(10),
        2 => octets(70),
        3 => octets(200),
        4 => Type::int(0, 65535),
        5 => octets(100),
        6 => Type::Str { cs: Charset::Ia5, size: Some(Size::range(0, Some(300), false)) },
        7 => octets(130),
        8 => Type::SequenceOf { elem: Box::new(Type::int(0, 255)), size: Some(Size::range(0, Some(300), false)) },
        9 => octets(64),
        10 => Type::Sequence(Fields { comps: vec![comp("x", octets(66), Presence::Mandatory), comp("y", Type::Boolean, Presence::Optional)], root: Some(1) }),
        _ => octets(127),
    };
    let presence = match (k + salt) % 4 {
        0 => Presence::Optional,
        1 if matches!(ty, Type::Boolean) => Presence::Default(DefaultVal { lit: Lit::Bool(true), via: None }),
        1 if matches!(ty, Type::Integer { .. }) => Presence::Default(DefaultVal { lit: Lit::Int(42), via: None }),
        _ => Presence::Mandatory,
    };
    (ty, presence)
}

/// pair `p`: (V1 module, V2 module). Top-level type `Msg`; the versioned type is `Msg` itself or
/// `Inner` (nested in a root component, in an extension addition, or as list element).
/// pairs 60..: an untagged CHOICE as component of a SET with explicit tags; V2 appends alternatives
/// whose tags are smaller than those of all root alternatives - the place of the CHOICE in the
/// canonical order of the SET must not move (only root alternatives count, X.680 8.6)
fn c05_choice_in_set_pair(p: usize) -> (ZooModule, ZooModule) {
    let v = p - 60;
    let ctx = |n: u32| Some(Tag { class: TagClass::Context, number: n });
    let build = |version: usize| -> ZooModule {
        let mut alts = vec![
            Alt { name: "text".into(), tag: ctx(5), ty: Type::Str { cs: Charset::Ia5, size: Some(Size::range(0, Some(5), false)) } },
            Alt { name: "flag".into(), tag: ctx(6), ty: Type::Boolean },
        ];
        if v % 2 == 1 {
            // V1 already knows one addition
            alts.push(Alt { name: "known".into(), tag: ctx(8), ty: Type::Null });
        }
        if version == 2 {
            alts.push(Alt { name: "number".into(), tag: ctx(2), ty: Type::int(0, 255) });
            alts.push(Alt { name: "more".into(), tag: ctx(1), ty: Type::Boolean });
        }
        let pick = Def { name: "Pick".into(), tag: None, ty: Type::Choice { alts, root: Some(2) } };
        // the CHOICE (tag [5]) sits behind `id` and in front of `seal` in canonical order; with the
        // appended [1] / [2] counted it would move to the front
        let (id_tag, seal_tag) = if v / 2 == 0 { (3, 7) } else { (4, 9) };
        let mut id = comp("id", Type::int(0, 255), Presence::Mandatory);
        id.tag = ctx(id_tag);
        let mut seal = comp("seal", Type::Boolean, Presence::Mandatory);
        seal.tag = ctx(seal_tag);
        let comps = if v / 2 == 0 { vec![id, comp("pick", Type::Ref("Pick".into()), Presence::Mandatory), seal] } else { vec![seal, comp("pick", Type::Ref("Pick".into()), Presence::Mandatory), id] };
        let msg = Def { name: "Msg".into(), tag: None, ty: Type::Set(Fields { comps, root: None }) };
        ZooModule {
            module: Module::simple(&format!("C05P{p}V{version}"), vec![pick, msg]),
            conformance: true,
            group: "c05".into(),
            meta: serde_json::json!({"pair": p, "version": version, "kind": "choice", "placement": "untagged-component-of-tagged-set", "v1_additions": v % 2, "appended": 2}),
        }
    };
    (build(1), build(2))
}

pub const C05_EXTRA_PAIRS: std::ops::Range<usize> = 60..64;

pub fn c05_pair(p: usize) -> (ZooModule, ZooModule) {
    if p >= 60 {
        return c05_choice_in_set_pair(p);
    }
    let kind = p % 5; // 0 sequence, 1 set, 2 choice, 3 enumerated, 4 sequence (other placement mix)
    let placement = (p / 5) % 4; // 0 top, 1 root component, 2 extension addition of an outer type, 3 list element
    let j = (p / 20) % 3; // additions V1 already has
    let k = 1 + (p * 5 + p / 7) % 8; // appended additions
    let build = |n_add: usize| -> Type {
        match kind {
            0 | 1 | 4 => {
                let mut comps = vec![comp("r0", Type::int(0, 255), Presence::Mandatory), comp("r1", Type::Boolean, Presence::Optional), comp("r2", Type::Str { cs: Charset::Ia5, size: Some(Size::range(0, Some(5), false)) }, Presence::Mandatory)];
                if kind == 4 {
                    comps.truncate(1);
                }
                let n_root = comps.len();
                for a in 0..n_add {
                    let (ty, pres) = c05_addition(a, p);
                    comps.push(comp(&format!("a{a}"), ty, pres));
                }
                let f = Fields { comps, root: Some(n_root) };
                if kind == 1 {
                    Type::Set(f)
                } else {
                    Type::Sequence(f)
                }
            }
            2 => {
                let mut alts = vec![Alt { name: "r0".into(), tag: None, ty: Type::int(0, 255) }, Alt { name: "r1".into(), tag: None, ty: Type::Boolean }];
                for a in 0..n_add {
                    let (ty, _) = c05_addition(a, p);
                    alts.push(Alt { name: format!("a{a}"), tag: None, ty });
                }
                Type::Choice { alts, root: Some(2) }
            }
            _ => {
                let mut items: Vec<(String, Option<i64>)> = vec![("r0".into(), None), ("r1".into(), None), ("r2".into(), None)];
                // (many items so that indices >= 64 into the additions occur in some pairs)
                let n_items = if p % 2 == 1 { n_add * 12 } else { n_add };
                for a in 0..n_items {
                    items.push((format!("a{a}"), None));
                }
                Type::Enumerated { items, root: Some(3) }
            }
        }
    };
    let module = |version: usize, n_add: usize| -> ZooModule {
        let versioned = build(n_add);
        let mut defs = Vec::new();
        match placement {
            0 => defs.push(Def { name: "Msg".into(), tag: None, ty: versioned }),
            1 => {
                defs.push(Def { name: "Inner".into(), tag: None, ty: versioned });
                defs.push(Def {
                    name: "Msg".into(),
                    tag: None,
                    ty: Type::Sequence(Fields { comps: vec![comp("pre", Type::Boolean, Presence::Mandatory), comp("inner", Type::Ref("Inner".into()), Presence::Mandatory), comp("post", Type::int(0, 15), Presence::Mandatory)], root: None }),
                });
            }
            2 => {
                defs.push(Def { name: "Inner".into(), tag: None, ty: versioned });
                defs.push(Def {
                    name: "Msg".into(),
                    tag: None,
                    ty: Type::Sequence(Fields { comps: vec![comp("pre", Type::Boolean, Presence::Mandatory), comp("inner", Type::Ref("Inner".into()), Presence::Mandatory), comp("post", Type::int(0, 15), Presence::Optional)], root: Some(1) }),
                });
            }
            _ => {
                defs.push(Def { name: "Inner".into(), tag: None, ty: versioned });
                defs.push(Def {
                    name: "Msg".into(),
                    tag: None,
                    ty: Type::Sequence(Fields { comps: vec![comp("list", Type::SequenceOf { elem: Box::new(Type::Ref("Inner".into())), size: Some(Size::range(0, Some(3), false)) }, Presence::Mandatory), comp("post", Type::int(0, 15), Presence::Mandatory)], root: None }),
                });
            }
        }
        ZooModule {
            module: Module::simple(&format!("C05P{p}V{version}"), defs),
            conformance: true,
            group: "c05".into(),
            meta: serde_json::json!({"pair": p, "version": version, "kind": (["sequence", "set", "choice", "enumerated", "sequence"][kind]), "placement": (["top", "root-component", "extension-addition", "list-element"][placement]), "v1_additions": j, "appended": k}),
        }
    };
    (module(1, j), module(2, j + k))
}

pub fn c05_pairs(n: usize) -> Vec<ZooModule> {
    (0..n).flat_map(|p| {
        let (a, b) = c05_pair(p);
        [a, b]
    }).collect()
}

// ---------------------------------------------------------------------------------------------
// C16: SET / SEQUENCE definitions with mixed explicit tags, untagged builtin types and references

/// helper definitions every C16 module starts with
pub fn c16_helper_defs() -> Vec<Def> {
    vec![
        Def { name: "RefTagged".into(), tag: Some(Tag { class: TagClass::Application, number: 9 }), ty: Type::int(0, 15) },
        Def { name: "RefPlainStr".into(), tag: None, ty: Type::Str { cs: Charset::Utf8, size: None } },
        Def {
            name: "RefChoice".into(),
            tag: None,
            ty: Type::Choice { alts: vec![Alt { name: "x".into(), tag: Some(Tag { class: TagClass::Context, number: 5 }), ty: Type::Boolean }, Alt { name: "y".into(), tag: Some(Tag { class: TagClass::Private, number: 2 }), ty: Type::Null }], root: None },
        },
        Def { name: "RefSeq".into(), tag: None, ty: Type::Sequence(Fields { comps: vec![comp("q", Type::int(0, 1), Presence::Mandatory)], root: None }) },
        Def { name: "RefPriv".into(), tag: Some(Tag { class: TagClass::Private, number: 40 }), ty: Type::Boolean },
        // an untagged CHOICE whose extension alternative has a smaller tag than every root
        // alternative: only the root alternatives count (X.680 8.6), i.e. PRIVATE 50
        Def {
            name: "RefChoiceExt".into(),
            tag: None,
            ty: Type::Choice {
                alts: vec![
                    Alt { name: "x".into(), tag: Some(Tag { class: TagClass::Private, number: 50 }), ty: Type::Boolean },
                    Alt { name: "y".into(), tag: Some(Tag { class: TagClass::Private, number: 51 }), ty: Type::Null },
                    Alt { name: "z".into(), tag: Some(Tag { class: TagClass::Application, number: 60 }), ty: Type::int(0, 3) },
                ],
                root: Some(2),
            },
        },
    ]
}

/// untagged candidates with pairwise different outermost tags (and none that a random explicit
/// tag can collide with: explicit UNIVERSAL numbers start at 40, APPLICATION avoids 9, PRIVATE
/// avoids 2 and 40, context avoids 5)
fn c16_untagged_pool(next: &mut dyn FnMut() -> u64) -> Vec<Type> {
    let small = || Type::int(0, 3);
    // UNIVERSAL 16 and 17 each in one of several spellings (reference, inline list, inline structure)
    let u16 = match next() % 3 {
        0 => Type::Ref("RefSeq".into()),
        1 => Type::SequenceOf { elem: Box::new(small()), size: Some(Size::fixed(1, false)) },
        _ => Type::Sequence(Fields { comps: vec![comp("q", small(), Presence::Mandatory)], root: None }),
    };
    let u17 = match next() % 2 {
        0 => Type::SetOf { elem: Box::new(small()), size: Some(Size::fixed(1, false)) },
        _ => Type::Set(Fields { comps: vec![comp("q", small(), Presence::Mandatory)], root: None }),
    };
    vec![
        Type::int(0, 7),
        Type::Boolean,
        Type::OctetString { size: Some(Size::fixed(1, false)) },
        Type::BitString { size: Some(Size::fixed(9, false)), named: vec![] },
        Type::Str { cs: Charset::Ia5, size: Some(Size::fixed(1, false)) },
        Type::Null,
        Type::Ref("RefTagged".into()),
        Type::Ref("RefPlainStr".into()),
        Type::Ref("RefChoice".into()),
        u16,
        Type::Ref("RefPriv".into()),
        u17,
        Type::Enumerated { items: vec![("a".into(), None), ("b".into(), None)], root: None },
        Type::Ref("RefChoiceExt".into()),
    ]
}

/// Systematic part of C16 part a: every pair of untagged candidates with different outermost tags
/// (all spellings of UNIVERSAL 16 / 17 included) next to one explicitly tagged component - so
/// that no automatic tagging takes place and every pair meets in both textual orders.
pub fn c16_pair_family() -> Vec<Fields> {
    let small = || Type::int(0, 3);
    // (outermost tag as sort key, type)
    let cands: Vec<(u32, Type)> = vec![
        (2, Type::int(0, 7)),
        (1, Type::Boolean),
        (4, Type::OctetString { size: Some(Size::fixed(1, false)) }),
        (3, Type::BitString { size: Some(Size::fixed(9, false)), named: vec![] }),
        (22, Type::Str { cs: Charset::Ia5, size: Some(Size::fixed(1, false)) }),
        (5, Type::Null),
        (1009, Type::Ref("RefTagged".into())),
        (12, Type::Ref("RefPlainStr".into())),
        (2005, Type::Ref("RefChoice".into())),
        (16, Type::Ref("RefSeq".into())),
        (16, Type::SequenceOf { elem: Box::new(small()), size: Some(Size::fixed(1, false)) }),
        (16, Type::Sequence(Fields { comps: vec![comp("q", small(), Presence::Mandatory)], root: None })),
        (3040, Type::Ref("RefPriv".into())),
        (17, Type::SetOf { elem: Box::new(small()), size: Some(Size::fixed(1, false)) }),
        (17, Type::Set(Fields { comps: vec![comp("q", small(), Presence::Mandatory)], root: None })),
        (10, Type::Enumerated { items: vec![("a".into(), None), ("b".into(), None)], root: None }),
        (3050, Type::Ref("RefChoiceExt".into())),
    ];
    let mut out = Vec::new();
    for i in 0..cands.len() {
        for j in i + 1..cands.len() {
            if cands[i].0 == cands[j].0 {
                continue;
            }
            let third = Comp { name: "f2".into(), tag: Some(Tag { class: TagClass::Context, number: 7 }), ty: Type::Boolean, presence: Presence::Mandatory };
            out.push(Fields { comps: vec![comp("f0", cands[i].1.clone(), Presence::Mandatory), comp("f1", cands[j].1.clone(), Presence::Mandatory), third], root: None });
        }
    }
    // an explicit tag that merely repeats the universal tag of the component's own type is still
    // an explicit tag: no automatic tagging, the other (untagged) components keep their universal tags
    for (own, ty) in [(2u32, Type::int(0, 7)), (1, Type::Boolean), (4, Type::OctetString { size: Some(Size::fixed(1, false)) }), (5, Type::Null)] {
        for (key, other) in &cands {
            if *key == own {
                continue;
            }
            let mut redundant = comp("f0", ty.clone(), Presence::Mandatory);
            redundant.tag = Some(Tag { class: TagClass::Universal, number: own });
            out.push(Fields { comps: vec![redundant, comp("f1", other.clone(), Presence::Mandatory)], root: None });
        }
    }
    out
}

fn c16_tagged_pool() -> Vec<Type> {
    vec![Type::int(0, 3), Type::int(0, 31), Type::Boolean, Type::int(0, 1023), Type::Str { cs: Charset::Numeric, size: Some(Size::fixed(2, false)) }, Type::Ref("RefSeq".into()), Type::Null, Type::OctetString { size: Some(Size::fixed(2, false)) }]
}

/// One C16 definition body from a stream of pseudo-random numbers: (components, root count)
pub fn c16_fields(next: &mut dyn FnMut() -> u64) -> Fields {
    let n = 2 + (next() % 4) as usize; // 2..5
    let mode = next() % 5; // 0: none tagged (automatic), 1: all tagged, else mixed
    let mut untagged = c16_untagged_pool(next);
    let tagged = c16_tagged_pool();
    let mut used: Vec<Tag> = Vec::new();
    let mut comps = Vec::new();
    for i in 0..n {
        let explicit = match mode {
            0 => false,
            1 => true,
            _ => next() % 2 == 0,
        };
        let (ty, tag) = if explicit || untagged.is_empty() {
            let ty = tagged[(next() % tagged.len() as u64) as usize].clone();
            let class = next() % 4;
            // (also numbers beyond 30 / 63 / 127: orderings that look at one identifier octet or at a
            // truncated number wrap there)
            let mut number = (next() % 12) as u32 + [0u32, 0, 0, 64, 120, 1000][(next() % 6) as usize];
            let mut t;
            loop {
                t = match class {
                    0 => Tag { class: TagClass::Universal, number: 40 + number },
                    1 => Tag { class: TagClass::Application, number: if number == 9 { 10 } else { number } },
                    2 => Tag { class: TagClass::Context, number: if number == 5 { 6 } else { number } },
                    _ => Tag { class: TagClass::Private, number: if number == 2 || number == 40 { 3 } else { number } },
                };
                if !used.contains(&t) {
                    break;
                }
                number += 1;
            }
            used.push(t);
            (ty, Some(t))
        } else {
            let k = (next() % untagged.len() as u64) as usize;
            (untagged.remove(k), None)
        };
        let presence = match (next() % 4, &ty) {
            (0, _) => Presence::Optional,
            (1, Type::Integer { range: Some(r), .. }) => Presence::Default(DefaultVal { lit: Lit::Int(r.lb.as_ref().map(|n| n.value).unwrap_or(0)), via: None }),
            (1, Type::Boolean) => Presence::Default(DefaultVal { lit: Lit::Bool(true), via: None }),
            _ => Presence::Mandatory,
        };
        comps.push(Comp { name: format!("f{i}"), tag, ty, presence });
    }
    let root = if next() % 3 == 0 { Some(1 + (next() % n as u64) as usize) } else { None };
    Fields { comps, root }
}

/// makes the additions' tags ascending in textual order (DESIGN.md section 4): additions are
/// re-ordered by their outermost tag
pub fn c16_normalise_additions(m: &Module, f: &mut Fields) {
    if let Some(r) = f.root {
        if let Ok(tags) = crate::refcodec::comp_tags(m, &f.comps) {
            let mut adds: Vec<(Tag, Comp)> = f.comps[r..].iter().cloned().enumerate().map(|(i, c)| (tags[r + i], c)).collect();
            adds.sort_by_key(|(t, _)| *t);
            for (i, (_, c)) in adds.into_iter().enumerate() {
                f.comps[r + i] = c;
            }
        }
    }
}

pub fn c16_modules(n_base: usize) -> Vec<ZooModule> {
    let mut state = 0x1234_5678_9abc_def0u64;
    let mut next = move || {
        state ^= state << 13;
        state ^= state >> 7;
        state ^= state << 17;
        state >> 11
    };
    let mut out = Vec::new();
    for chunk in 0..(n_base + 7) / 8 {
        let mut defs = c16_helper_defs();
        let helper = Module::simple("H", defs.clone());
        for j in 0..8 {
            let b = chunk * 8 + j;
            if b >= n_base {
                break;
            }
            let base = c16_fields(&mut next);
            let n_root = base.root.unwrap_or(base.comps.len());
            // the sampled order, the reversed root order and a rotation; SET and (for the sampled order) SEQUENCE
            for (p, perm) in [0usize, 1, 2].iter().enumerate() {
                let mut f = base.clone();
                match perm {
                    1 => f.comps[..n_root].reverse(),
                    2 => f.comps[..n_root].rotate_left(1),
                    _ => {}
                }
                for (i, c) in f.comps.iter_mut().enumerate() {
                    c.name = format!("f{i}");
                }
                c16_normalise_additions(&helper, &mut f);
                defs.push(Def { name: format!("Set{b}p{p}"), tag: None, ty: Type::Set(f.clone()) });
                if p == 1 {
                    defs.push(Def { name: format!("Seq{b}p{p}"), tag: None, ty: Type::Sequence(f) });
                }
            }
        }
        out.push(ZooModule { module: Module::simple(&format!("C16M{chunk}"), defs), conformance: true, group: "c16".into(), meta: serde_json::Value::Null });
    }
    out
}
