# sourced by ../check and ../setup.sh: prepares the engine workspace for $VERIF_REPO
REPO="${VERIF_REPO:-/repo}"
ENGINE="$VERIF_DIR/engine"
if [ "$REPO" = "/repo" ]; then
  TARGET_DIR="$ENGINE/target"
else
  TARGET_DIR="${VERIF_TARGET:-$REPO/../verif-target}"
fi
export CARGO_TARGET_DIR="$TARGET_DIR"
mkdir -p "$TARGET_DIR"

# Cargo.toml is generated (path dependencies point to $REPO); rewritten only when it changes
gen_manifest() {
  local tmp="$ENGINE/Cargo.toml.tmp"
  sed "s#@REPO@#$REPO#g" "$ENGINE/Cargo.toml.in" > "$tmp" || return 1
  if ! cmp -s "$tmp" "$ENGINE/Cargo.toml"; then mv "$tmp" "$ENGINE/Cargo.toml"; else rm -f "$tmp"; fi
  if [ ! -f "$ENGINE/Cargo.lock" ]; then cp "$REPO/Cargo.lock" "$ENGINE/Cargo.lock" || return 1; fi
  # the zoo crates' sources are generated; cargo needs them to exist to load the workspace
  local k
  for k in 0 1 2 3 4 5 6 7; do
    for z in z zs; do
      if [ ! -f "$ENGINE/zoo/$z$k/src/lib.rs" ]; then
        mkdir -p "$ENGINE/zoo/$z$k/src"
        echo 'pub fn register(_v: &mut Vec<zoort::Entry>) {}' > "$ENGINE/zoo/$z$k/src/lib.rs"
      fi
    done
  done
  [ -f "$ENGINE/zoo/schemas.json" ] || echo '[]' > "$ENGINE/zoo/schemas.json"
}

# build_zoo: (re)generate the fixed zoo sources and build the zoo crates against $REPO
# build_zoo seed <n>: additionally the seed-dependent modules (thorough tiers) in the crates zs0..zs7; a seeded
# module that the current tree cannot compile is a C09 matter, not this check's: on a build failure the seeded part
# is dropped again (with a note) so that the check still runs on the fixed zoo.
build_zoo() {
  build_bin zoogen || return 1
  if [ "${1:-fixed}" = seed ]; then
    "$TARGET_DIR/debug/zoogen" "$ENGINE/zoo" seed "$2" > "$TARGET_DIR/zoogen.log" 2>&1 || { cat "$TARGET_DIR/zoogen.log" >&2; return 1; }
    if build_bin zoo 2>"$TARGET_DIR/zoo-seeded-build.err"; then return 0; fi
    echo "NOTE: the seeded zoo (seed $2) does not build on this tree; continuing with the fixed zoo (see $TARGET_DIR/zoo-seeded-build.err)"
  fi
  "$TARGET_DIR/debug/zoogen" "$ENGINE/zoo" fixed > "$TARGET_DIR/zoogen.log" 2>&1 || { cat "$TARGET_DIR/zoogen.log" >&2; return 1; }
}

# build_bin <package> [extra cargo args]: offline build from the current tree of $REPO
build_bin() {
  local pkg="$1"; shift
  gen_manifest || { echo "cannot generate engine manifest" >&2; return 1; }
  local log="$TARGET_DIR/build-$pkg.log"
  # a lock so that concurrently started checks do not fight over the target directory
  (
    flock 9
    cd "$ENGINE" && cargo build --offline -q -p "$pkg" "$@" >"$log" 2>&1
  ) 9>"$TARGET_DIR/.verif-build.lock"
  local rc=$?
  if [ $rc -ne 0 ]; then
    echo "BUILD FAILED for $pkg (exit $rc); see $log" >&2
    tail -n 60 "$log" >&2
    return 1
  fi
}

# build_fuzz <target>: cargo-fuzz (libFuzzer) build of one target of engine/fuzz against $REPO (nightly toolchain,
# no sanitizer: asn1rs has no unsafe code; coverage instrumentation only). Binary: $TARGET_DIR/fuzz/x86_64-unknown-linux-gnu/release/<target>
build_fuzz() {
  local target="$1"
  gen_manifest || return 1
  local tmp="$ENGINE/fuzz/Cargo.toml.tmp"
  sed "s#@REPO@#$REPO#g" "$ENGINE/fuzz/Cargo.toml.in" > "$tmp" || return 1
  if ! cmp -s "$tmp" "$ENGINE/fuzz/Cargo.toml"; then mv "$tmp" "$ENGINE/fuzz/Cargo.toml"; else rm -f "$tmp"; fi
  [ -f "$ENGINE/fuzz/Cargo.lock" ] || cp "$ENGINE/Cargo.lock" "$ENGINE/fuzz/Cargo.lock" || return 1
  local log="$TARGET_DIR/build-fuzz-$target.log"
  (
    flock 9
    cd "$ENGINE" && CARGO_TARGET_DIR="$TARGET_DIR/fuzz" cargo +nightly fuzz build --fuzz-dir "$ENGINE/fuzz" --sanitizer none "$target" >"$log" 2>&1
  ) 9>"$TARGET_DIR/.verif-fuzz-build.lock"
  local rc=$?
  if [ $rc -ne 0 ]; then
    echo "FUZZ BUILD FAILED for $target (exit $rc); see $log" >&2
    tail -n 40 "$log" >&2
    return 1
  fi
}
