//! vdiff <vector-file> <out-file>: decodes every vector (JSON lines: module, type, bytes hex,
//! bit_len) with the UPER reader of the zoo type and prints one outcome line per vector:
//!   `Ok <hash of Debug of the value> pos=<bits consumed>` | `Err <kind and payload, no backtraces> pos=<..>` | `PANIC <class>`
//! Built twice (with and without the feature `ddx`) by the C19 check.
use asn1rs::prelude::UperReader;
use asn1rs::protocol::per::ErrorKind;
use asn1rs::rw::ScopedBitRead;
use std::io::Write;
use vcore::harness::{catch, hash_of, install_quiet_panic_hook, unhex};

#[allow(unreachable_patterns)]
fn err_line(k: &ErrorKind) -> String {
    match k {
        ErrorKind::FromUtf8Error(e) => format!("FromUtf8Error({})", e.utf8_error().valid_up_to()),
        ErrorKind::InvalidString(c, ch, i) => format!("InvalidString({c:?},{ch:?},{i})"),
        ErrorKind::UnsupportedOperation(s) => format!("UnsupportedOperation({s})"),
        ErrorKind::InsufficientSpaceInDestinationBuffer(_) => "InsufficientSpaceInDestinationBuffer".into(),
        ErrorKind::InsufficientDataInSourceBuffer(_) => "InsufficientDataInSourceBuffer".into(),
        ErrorKind::LengthDeterminantExceedsLimit { length, limit, .. } => format!("LengthDeterminantExceedsLimit({length},{limit})"),
        ErrorKind::InvalidChoiceIndex(a, b) => format!("InvalidChoiceIndex({a},{b})"),
        ErrorKind::ExtensionFieldsInconsistent(s) => format!("ExtensionFieldsInconsistent({s})"),
        ErrorKind::ValueNotInRange(a, b, c) => format!("ValueNotInRange({a},{b},{c})"),
        ErrorKind::ValueExceedsMaxInt => "ValueExceedsMaxInt".into(),
        ErrorKind::ValueIsNegativeButExpectedUnsigned(v) => format!("ValueIsNegativeButExpectedUnsigned({v})"),
        ErrorKind::SizeNotInRange(a, b, c) => format!("SizeNotInRange({a},{b},{c})"),
        ErrorKind::BitLenNotInRange(a, b, c) => format!("BitLenNotInRange({a},{b},{c})"),
        ErrorKind::OptFlagsExhausted => "OptFlagsExhausted".into(),
        ErrorKind::EndOfStream => "EndOfStream".into(),
        _ => "Other".into(),
    }
}

fn main() {
    install_quiet_panic_hook();
    let args: Vec<String> = std::env::args().skip(1).collect();
    let input = std::fs::read_to_string(&args[0]).expect("vector file");
    let mut out = std::io::BufWriter::new(std::fs::File::create(&args[1]).expect("out file"));
    let registry = zoo::registry();
    let schemas = zoo::schemas();
    let find = |module: &str, ty: &str| registry.iter().find(|e| e.name == ty && schemas[e.module].module.name == module);
    for line in input.lines() {
        let j: serde_json::Value = match serde_json::from_str(line) {
            Ok(j) => j,
            Err(_) => continue,
        };
        let Some(e) = find(j["module"].as_str().unwrap_or(""), j["type"].as_str().unwrap_or("")) else {
            writeln!(out, "UNKNOWN-TYPE").unwrap();
            continue;
        };
        let bytes = unhex(j["bytes"].as_str().unwrap_or(""));
        let bit_len = j["bit_len"].as_u64().unwrap_or(0) as usize;
        let mut r = UperReader::from((&bytes[..], bit_len));
        let res = catch(|| e.ty.uper_read(&mut r));
        let pos = r.into_bits().pos();
        let line = match res {
            Err(p) => format!("PANIC {}", p.lines().nth(1).unwrap_or("").chars().take(60).collect::<String>()),
            Ok(Ok(v)) => format!("Ok {:016x} pos={pos}", hash_of(&e.ty.debug(&*v))),
            Ok(Err(err)) => format!("Err {} pos={pos}", err_line(err.kind())),
        };
        writeln!(out, "{line}").unwrap();
    }
    out.flush().unwrap();
    #[cfg(feature = "ddx")]
    println!("vdiff: built WITH descriptive-deserialize-errors");
    #[cfg(not(feature = "ddx"))]
    println!("vdiff: built without descriptive-deserialize-errors");
}
