#!/bin/bash
# selftest/mut.sh <patch-file> <PROPERTY>... : apply a mutation patch to /repo, run the quick checks of
# the given properties (evidence/replay redirected to a scratch dir), restore /repo. Prints one line per check.
set -u
PATCH="$(realpath "$1")"; shift
HERE="$(cd "$(dirname "$0")/.." && pwd)"
cd /repo || exit 2
if ! git diff --quiet; then echo "/repo has uncommitted changes" >&2; exit 2; fi
git apply "$PATCH" || { echo "patch does not apply: $PATCH" >&2; exit 3; }
trap 'git -C /repo checkout -- . ' EXIT
OUT=$(mktemp -d /tmp/verif-mut.XXXXXX)
for P in "$@"; do
  VERIF_OUT="$OUT" "$HERE/check" "$P" quick > "$OUT/$P.log" 2>&1
  rc=$?
  echo "$(basename "$PATCH") $P exit=$rc $(grep -c '^VIOLATION' "$OUT/$P.log") violation(s): $(grep -m1 '^FAIL' "$OUT/$P.log" | cut -c1-200)"
done
rm -rf "$OUT"
