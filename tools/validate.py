#!/usr/bin/env python3-vt
"""Validates MANIFEST.json and all evidence files against the schemas in /root/.vp."""
import json, glob, sys, jsonschema
ok = True
def v(path, schema):
    global ok
    try:
        jsonschema.validate(json.load(open(path)), json.load(open(schema)))
        print("valid  ", path)
    except Exception as e:
        ok = False
        print("INVALID", path, str(e)[:300])
v("/verif/MANIFEST.json", "/root/.vp/MANIFEST.schema.json")
for f in sorted(glob.glob("/verif/evidence/*.json")):
    v(f, "/root/.vp/EVIDENCE.schema.json")
sys.exit(0 if ok else 1)
