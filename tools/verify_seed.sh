#!/bin/bash
# tools/verify_seed.sh <ID> [worktree]: confirms a seeded change delivered in <worktree>/SEEDED:
#  suite green with the change (only the 3 known walker failures + the demo fail), demo fails with it, demo passes without it.
ID="$1"; WT="${2:-/tmp/wt/$ID}"
cd "$WT" || exit 2
export CARGO_NET_OFFLINE=true CARGO_TARGET_DIR="$WT/target"
[ -f SEEDED/patch.diff ] && [ -f tests/seeded_demo.rs ] || { echo "$ID: deliverables missing"; exit 2; }
FEAT=""; grep -q 'feature = "protobuf"\|protobuf' SEEDED/meta.json 2>/dev/null && FEAT="--features protobuf"
grep -q "descriptive-deserialize-errors" SEEDED/meta.json 2>/dev/null && FEAT="--features descriptive-deserialize-errors"
with=$(cargo nextest run --workspace --no-fail-fast --offline --test-threads 8 $FEAT 2>&1 | grep -E "^\s+FAIL" | sed 's/.*\] *//' | sort -u)
other=$(echo "$with" | grep -v "generate::walker::tests::" | grep -v "seeded_demo" | grep -v '^$')
demo_fail=$(echo "$with" | grep -c "seeded_demo")
# (no git stash: the stash is shared between the worktrees of a repository)
git diff -- src asn1rs-model/src asn1rs-macros/src > "$WT/.verify-own.diff"
git apply -R "$WT/.verify-own.diff"
without=$(cargo nextest run --offline --test seeded_demo $FEAT 2>&1 | grep -E "Summary|^\s+FAIL" | tr '\n' ' ')
git apply "$WT/.verify-own.diff"; rm -f "$WT/.verify-own.diff"
echo "$ID: other-failures-with-change=[$(echo $other)] demo-failing-tests-with-change=$demo_fail without-change: $without"
