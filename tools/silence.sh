#!/bin/bash
# tools/silence.sh <out.tsv> <seed>...: every quick check on the unchanged tree with several seeds, from fresh
# processes; prints one line per run; evidence/replay go to a scratch directory. (self-test tooling)
OUT_TSV="$1"; shift
OUT=$(mktemp -d /tmp/verif-sil.XXXXXX)
for S in "$@"; do
  for P in C01 C02 C03 C04 C05 C06 C07 C08 C09 C10 C11 C12 C13 C14 C15 C16 C17 C18 C19 C20; do
    VERIF_SEED=$S VERIF_OUT="$OUT" /verif/check $P quick > "$OUT/$P.log" 2>&1; rc=$?
    printf '%s\t%s\t%s\t%s\n' "$S" "$P" "$rc" "$(grep -m1 -E '^FAIL|^INFRA|VIOLATION' "$OUT/$P.log" | cut -c1-200)" >> "$OUT_TSV"
  done
done
rm -rf "$OUT"
