#!/usr/bin/env python3
"""Writes the recorded inputs of known findings (findings/*.json) from the fixed zoo's schemas.json."""
import json, sys
zoo = json.load(open('/verif/engine/zoo/schemas.json'))
def find(leaf):
    for z in zoo:
        if z['group'] == 'sys' and z['meta'] and z['meta'].get('leaf') == leaf:
            return z['module']['name']
    raise SystemExit('no sys module for ' + leaf)
def c01(path, module, ty, value, what):
    json.dump({"property": "C01", "what": what, "case": {"filler_bits": 0, "messages": [{"module": module, "type": ty, "value": value}]}}, open(path, 'w'))
def c02(path, module, ty, value, what, prop="C02"):
    json.dump({"property": prop, "what": what, "case": {"module": module, "type": ty, "value": value}}, open(path, 'w'))
S = lambda *slots: {"Seq": list(slots)}
ia5 = find("IA5String")
big_str = {"Str": "a" * 16385}
c01('/verif/findings/C01-fragmented-list-or-string.json', ia5, 'Ty0', S(big_str), "IA5String of 16385 characters does not round trip")
c02('/verif/findings/C02-fragmented-list-or-string.json', ia5, 'Ty0', S(big_str), "IA5String of 16384 characters: bits differ from X.691 (no fragmentation)")
octs = find("OCTET STRING")
big_oct = {"Bytes": [i % 251 for i in range(16384)]}
v = S({"Bool": False}, {"Bytes": []}, None, {"Int": 0}, big_oct, None, None)
c01('/verif/findings/C01-open-type-over-16k.json', octs, 'Ty1', v, "extension addition whose open type has >= 16384 octets does not decode")
c02('/verif/findings/C02-open-type-over-16k.json', octs, 'Ty1', v, "canonical encoding with a fragmented open type (>= 16384 octets) does not decode")
print("ok")
