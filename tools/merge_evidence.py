#!/usr/bin/env python3
"""merge_evidence.py <ID> <part>...: merges evidence/<ID>.part-<x>.json into evidence/<ID>.json"""
import json, sys, os
pid, parts = sys.argv[1], sys.argv[2:]
base = os.environ.get("VERIF_OUT", os.environ.get("VERIF_DIR", "/verif")) + "/evidence"
out = None
for p in parts:
    f = f"{base}/{pid}.part-{p}.json"
    d = json.load(open(f))
    os.remove(f)
    if out is None:
        out = d
        continue
    c, o = d["coverage"], out["coverage"]
    o["evaluations"] += c["evaluations"]
    o["distinct_nontrivial"] += c["distinct_nontrivial"]      # the parts explore disjoint case spaces
    o["rule"] = o["rule"] + " || " + c["rule"]
    o["samples"] = o["samples"] + c["samples"]
    for k, v in c.get("classes", {}).items():
        o.setdefault("classes", {})[k] = o.get("classes", {}).get(k, 0) + v
    for k in ("exhaustive_subspaces",):
        if k in c:
            o[k] = o.get(k, []) + c[k]
    for k, v in c.items():
        if k not in o:
            o[k] = v
    out["assumptions"] = out.get("assumptions", []) + d.get("assumptions", [])
    out["wall_s"] = round(out["wall_s"] + d["wall_s"], 3)
    out["violations"] = out.get("violations", 0) + d.get("violations", 0)
json.dump(out, open(f"{base}/{pid}.json", "w"), indent=1)
