#!/usr/bin/env python3
"""fuzz_stage.py <ID> <target> <tier>: coverage-guided stage (libFuzzer via cargo-fuzz) of a check.

Runs J independent libFuzzer processes of engine/fuzz target <target> (built by env.sh build_fuzz) on a shared,
freshly seeded corpus with a fixed number of runs each, then
  * every failure the in-target oracle recorded (JSON replay file) and every libFuzzer timeout / oom / crash artifact
    is re-executed with `./check <ID> --replay <file>` in the ordinary build; reproduced -> FAIL + VIOLATION lines,
    exit 1; not reproduced -> exit 2 (inconclusive, never a violation);
  * the campaign statistics are merged into evidence/<ID>.json under coverage.fuzz_campaign.
Environment: TARGET_DIR, VERIF_DIR, VERIF_OUT (optional), VERIF_SEED, VERIF_FUZZ_RUNS (override of runs per process)."""
import json, os, re, shutil, subprocess, sys, glob, hashlib

pid, target, tier = sys.argv[1], sys.argv[2], sys.argv[3]
verif = os.environ.get("VERIF_DIR", "/verif")
out = os.environ.get("VERIF_OUT", verif)
tdir = os.environ["TARGET_DIR"]
seed = int(os.environ.get("VERIF_SEED", "1") or 1)
jobs = int(os.environ.get("VERIF_FUZZ_JOBS", "16"))
RUNS = {  # runs per process: (quick, thorough)
    "bitops": (100_000, 2_000_000), "perprims": (50_000, 600_000),
    "decoders": (30_000, 400_000), "frontend": (20_000, 400_000),
}
MAXLEN = {"bitops": 400, "perprims": 64, "decoders": 600, "frontend": 3000}
runs = int(os.environ.get("VERIF_FUZZ_RUNS", RUNS[target][0 if tier == "quick" else 1]))
binary = f"{tdir}/fuzz/x86_64-unknown-linux-gnu/release/{target}"
work = f"{tdir}/fuzzrun/{pid}"
shutil.rmtree(work, ignore_errors=True)
for d in ("corpus", "fails", "artifacts"):
    os.makedirs(f"{work}/{d}")
if not os.path.exists(binary):
    print(f"INFRA: fuzz target {target} is not built")
    sys.exit(2)
# seed corpus
if target == "decoders":
    subprocess.run([f"{tdir}/debug/vrt", "fuzz-corpus", f"{work}/corpus", str(seed)], stdout=subprocess.DEVNULL)
elif target == "frontend":
    subprocess.run([f"{tdir}/debug/vfront", "fuzz-corpus", f"{work}/corpus"], stdout=subprocess.DEVNULL)
n_seed_files = len(os.listdir(f"{work}/corpus"))
env = dict(os.environ, VERIF_FUZZ_FAILS=f"{work}/fails")
procs = []
for j in range(jobs):
    log = open(f"{work}/fuzz-{j}.log", "w")
    args = [binary, f"-seed={seed * 1000 + j + 1}", f"-runs={runs}", f"-max_len={MAXLEN[target]}", "-len_control=0",
            "-timeout=25", "-rss_limit_mb=4096", "-malloc_limit_mb=2048", "-reload=1", "-print_final_stats=1",
            f"-artifact_prefix={work}/artifacts/", f"{work}/corpus"]
    if target == "frontend" and os.path.exists(f"{verif}/engine/fuzz/asn1.dict"):
        args.insert(1, f"-dict={verif}/engine/fuzz/asn1.dict")
    procs.append((subprocess.Popen(args, stdout=log, stderr=subprocess.STDOUT, env=env, cwd=work), log))
rcs = []
for p, log in procs:
    rcs.append(p.wait())
    log.close()
# statistics
execs = cov = ft = 0
for j in range(jobs):
    text = open(f"{work}/fuzz-{j}.log", errors="replace").read()
    m = re.findall(r"stat::number_of_executed_units:\s*(\d+)", text)
    if m:
        execs += int(m[-1])
    else:
        m = re.findall(r"^#(\d+)\s", text, re.M)
        if m:
            execs += int(m[-1])
    m = re.findall(r"cov: (\d+) ft: (\d+)", text)
    if m:
        cov = max(cov, int(m[-1][0])); ft = max(ft, int(m[-1][1]))
corpus = len(os.listdir(f"{work}/corpus"))
# failures: decoded cases recorded by the oracle, then raw artifacts without one
candidates = sorted(glob.glob(f"{work}/fails/*.json"))
have_json_for = len(candidates) > 0
for art in sorted(glob.glob(f"{work}/artifacts/*")):
    kind = os.path.basename(art).split("-")[0]
    if kind == "crash" and have_json_for:
        continue  # the abort after a recorded failure
    data = open(art, "rb").read()
    j = {"property": pid, "key": f"libfuzzer-{kind}", "what": f"libFuzzer {kind} artifact of target {target}",
         "case": {"fuzz_target": target, "fuzz_input": data.hex()}, "found_by": "libFuzzer"}
    f = f"{work}/fails/{kind}-{hashlib.sha1(data).hexdigest()[:16]}.json"
    json.dump(j, open(f, "w"), indent=1)
    candidates.append(f)
violations, unreproduced, seen_keys = [], [], set()
replay_dir = f"{out}/replay/{pid}"
for f in candidates[:40]:
    j = json.load(open(f))
    # (the zoo of the tier: `check --replay` rebuilds the seeded zoo for cases of a thorough run)
    j.setdefault("seed", seed)
    j.setdefault("tier", tier)
    json.dump(j, open(f, "w"), indent=1)
    key = j.get("key", "")
    if key in seen_keys:
        continue
    verdicts = []
    for attempt in range(3):
        try:
            r = subprocess.run([f"{verif}/check", pid, "--replay", f], capture_output=True, text=True, timeout=90)
            verdicts.append(r.returncode)
        except subprocess.TimeoutExpired:
            verdicts.append("timeout")
        if verdicts[-1] != "timeout":
            break
    if verdicts[-1] == 1 or verdicts == ["timeout"] * 3:
        seen_keys.add(key)
        os.makedirs(replay_dir, exist_ok=True)
        dst = f"{replay_dir}/fuzz-{os.path.basename(f)}"
        shutil.copy(f, dst)
        what = j["what"] if verdicts[-1] == 1 else "no result within 90 s, three times in isolation"
        violations.append((key, what, dst))
    else:
        unreproduced.append((f, verdicts))
for key, what, dst in violations[:5]:
    print(f"FAIL[{pid}] fuzz:{key}: {what[:400]}")
    print(f"VIOLATION property={pid} replay={dst}")
for f, v in unreproduced[:5]:
    print(f"NOTE: fuzz candidate {f} did not reproduce in the ordinary build (verdicts {v})")
abnormal = [rc for rc in rcs if rc != 0]
# evidence
ev_path = f"{out}/evidence/{pid}.json"
try:
    ev = json.load(open(ev_path))
    cvg = ev.setdefault("coverage", {})
    cvg["fuzz_campaign"] = {"engine": "libFuzzer (cargo-fuzz, coverage instrumentation, no sanitizer: no unsafe code in asn1rs)",
                            "target": target, "processes": jobs, "runs_per_process": runs, "executions": execs,
                            "seed_corpus_files": n_seed_files, "corpus_files_at_end": corpus, "coverage_edges": cov,
                            "features": ft, "failures_recorded": len(candidates), "reproduced": len(violations),
                            "not_reproduced": len(unreproduced)}
    cvg.setdefault("classes", {})[f"fuzz:{target}:executions"] = execs
    if violations:
        ev["violations"] = ev.get("violations", 0) + len(violations)
    json.dump(ev, open(ev_path, "w"), indent=1)
except Exception as e:  # the main stage always writes the file; without it the run is broken
    print(f"INFRA: cannot update {ev_path}: {e}")
    sys.exit(2)
print(f"FUZZ-SUMMARY property={pid} target={target} processes={jobs} executions={execs} cov={cov} ft={ft} corpus={corpus} violations={len(violations)} unreproduced={len(unreproduced)}")
if violations:
    sys.exit(1)
if unreproduced or (abnormal and not candidates):
    if abnormal and not candidates:
        print(f"INFRA: libFuzzer processes ended with {abnormal} without a recorded failure")
    sys.exit(2)
sys.exit(0)
