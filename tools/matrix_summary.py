#!/usr/bin/env python3
"""matrix_summary.py <MATRIX.tsv>: one line per change: which quick checks exit 1 / exit 2 (markdown table)."""
import sys, collections
rows = [l.rstrip('\n').split('\t') for l in open(sys.argv[1], errors='replace')]
by = collections.OrderedDict()
for r in rows:
    if len(r) < 3:
        continue
    by.setdefault(r[0].replace('/patch.diff', '').replace('.patch', ''), {})[r[1]] = r[2]
print("| change | detected by (exit 1) | exit 2 (cannot build / infrastructure) |")
print("|---|---|---|")
for s, d in by.items():
    det = [p for p, rc in d.items() if rc == '1']
    inf = [p for p, rc in d.items() if rc not in ('0', '1')]
    print(f"| {s} | {', '.join(det) or '-'} | {', '.join(inf) or '-'} |")
