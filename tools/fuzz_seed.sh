#!/bin/bash
# tools/fuzz_seed.sh <patch> <ID> <target>: does the coverage-guided stage alone detect a change? (self-test tooling)
PATCH="$(realpath "$1")"; ID="$2"; T="$3"
export VERIF_DIR=/verif CARGO_NET_OFFLINE=true
cd /repo && git diff --quiet || { echo "/repo dirty" >&2; exit 2; }
git apply "$PATCH" || exit 3
trap 'git -C /repo checkout -- .' EXIT
. /verif/engine/env.sh
OUT=$(mktemp -d /tmp/verif-fz.XXXXXX); mkdir -p "$OUT/evidence"; echo '{"coverage":{}}' > "$OUT/evidence/$ID.json"
build_bin vrt >/dev/null 2>&1; build_bin vfront >/dev/null 2>&1; build_bin vprim > /dev/null 2>&1
build_fuzz "$T" || exit 2
export TARGET_DIR
VERIF_OUT="$OUT" python3 /verif/tools/fuzz_stage.py "$ID" "$T" quick 2>&1 | cut -c1-300
echo "exit=$?"
rm -rf "$OUT"
