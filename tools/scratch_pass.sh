#!/bin/bash
# tools/scratch_pass.sh <out.tsv> <tier> <seed> <PROPERTY>...: runs the given checks of the committed /verif against
# the committed /repo in a scratch copy (so that /repo, /verif and the engine's target directory stay free), appends
#   <property> <tier> <seed> <exit code> <seconds> <SUMMARY / FAIL lines>
# to <out.tsv>, removes the scratch copy. Self-test tooling, not a manifest command.
set -u
OUT_TSV="$(realpath "$1")"; TIER="$2"; SEED="$3"; shift 3
SM="${SCRATCH_DIR:-/tmp/sp}"
rm -rf "$SM"; mkdir -p "$SM/out"
git -C /repo worktree prune
git -C /repo worktree add --detach "$SM/repo" HEAD -q || exit 2
trap 'git -C /repo worktree remove --force "$SM/repo" 2>/dev/null; rm -rf "$SM"; git -C /repo worktree prune' EXIT
git -C /verif archive HEAD | tar -x -C "$SM" --one-top-level=verif
export VERIF_REPO="$SM/repo" VERIF_TARGET="$SM/target" VERIF_OUT="$SM/out" VERIF_SEED="$SEED"
for P in "$@"; do
  t0=$(date +%s)
  "$SM/verif/check" "$P" "$TIER" > "$SM/out/$P.log" 2>&1; rc=$?
  t1=$(date +%s)
  printf '%s\t%s\t%s\t%s\t%s\t%s\n' "$P" "$TIER" "$SEED" "$rc" "$((t1-t0))" "$(grep -E '^SUMMARY|^FUZZ-SUMMARY|^FAIL|^INFRA|^NOTE' "$SM/out/$P.log" | cut -c1-260 | tr '\n' ' ')" >> "$OUT_TSV"
  if [ $rc -ne 0 ]; then mkdir -p /tmp/probe/sp-fail; cp -r "$SM/out/replay" /tmp/probe/sp-fail/ 2>/dev/null; cp "$SM/out/$P.log" /tmp/probe/sp-fail/; fi
done
