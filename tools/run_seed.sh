#!/bin/bash
# tools/run_seed.sh <seed-dir> <PROPERTY>...: apply seeded/<dir>/patch.diff to /repo, run the quick checks, undo.
D="$(realpath "$1")"; shift
cd /repo || exit 2
git diff --quiet || { echo "/repo dirty" >&2; exit 2; }
git apply "$D/patch.diff" || { echo "patch does not apply" >&2; exit 3; }
trap 'git -C /repo checkout -- .' EXIT
OUT=$(mktemp -d /tmp/verif-seed.XXXXXX)
for P in "$@"; do
  VERIF_OUT="$OUT" /verif/check "$P" quick > "$OUT/$P.log" 2>&1; rc=$?
  echo "$(basename "$D") $P exit=$rc : $(grep -m1 '^FAIL' "$OUT/$P.log" | cut -c1-260)"
done
rm -rf "$OUT"
