#!/bin/bash
# tools/seed_matrix.sh <out.tsv> <patch-file>... : runs EVERY quick check against each given change in a
# scratch copy of /repo and /verif (so /repo and the engine's target directory stay untouched) and appends
#   <change> <property> <exit code> <first FAIL line>
# to <out.tsv>. The scratch copy is removed at the end. Not a manifest command (self-test tooling).
set -u
OUT_TSV="$(realpath "$1")"; shift
SM="${SEED_MATRIX_DIR:-/tmp/sm}"
PROPS="${SEED_MATRIX_PROPS:-C01 C02 C03 C04 C05 C06 C07 C08 C09 C10 C11 C12 C13 C14 C15 C16 C17 C18 C19 C20}"
rm -rf "$SM"; mkdir -p "$SM/out"
git -C /repo worktree prune
git -C /repo worktree add --detach "$SM/repo" HEAD -q || exit 2
trap 'git -C /repo worktree remove --force "$SM/repo" 2>/dev/null; rm -rf "$SM"; git -C /repo worktree prune' EXIT
rsync -a --exclude engine/target --exclude .git --exclude evidence --exclude replay /verif/ "$SM/verif/"
export VERIF_REPO="$SM/repo" VERIF_TARGET="$SM/target" VERIF_OUT="$SM/out"
for PATCH in "$@"; do
  NAME="$(basename "$(dirname "$PATCH")")/$(basename "$PATCH")"
  if ! git -C "$SM/repo" apply "$PATCH"; then
    printf '%s\t-\t-\tpatch does not apply\n' "$NAME" >> "$OUT_TSV"
    continue
  fi
  for P in $PROPS; do
    "$SM/verif/check" "$P" quick > "$SM/out/$P.log" 2>&1; rc=$?
    printf '%s\t%s\t%s\t%s\n' "$NAME" "$P" "$rc" "$(grep -m1 -E '^FAIL|^INFRA|error(\[|:)' "$SM/out/$P.log" | cut -c1-220)" >> "$OUT_TSV"
  done
  git -C "$SM/repo" checkout -- .
done
